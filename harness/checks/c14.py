"""C14 — a class_path is checked against the declared type and built from its config.

  MC      tlc MC_Classes: the Alg machine of spec/Classes.tla (one step per source: ActionTypeHint.__call__ -> subclass
          branch of adapt_typehints -> subclass_spec_as_namespace -> resolve/import -> adapt_class_type with
          discard_init_args_on_class_path_change and the leaf-wise update; then sub-defaults, required check,
          instantiate_classes) on every sequence of up to MaxLen sources from a vocabulary per declared class over a
          fixed class family; invariants AlgRefinesRef (Alg = the property's fold of explicit deltas + the two recorded
          dict_kwargs deviations), DevOnlyDictKwargs, AcceptedIsValid (AcceptSpec), LogRebuilds (LogOK),
          ShortEqualsExplicit, MachineIsFold; every finished case is emitted with its explicit form and the outcome.
  REPLAY  (spec -> code) a module with the family is generated (constructors log their keyword arguments), every emitted
          case is concretised as argv / --cfg text and run through parse_args + instantiate_classes on the real code; so
          is the explicit form of every accepted case.
  TRACE   (code -> spec) seeded random families (other names, defaults, which subclass adds / retypes / requires what,
          deeper owners) with random source sequences up to length 4 are executed the same way.
  ROUND 4 histories of parses in ONE process over a family that changes with time (late modules, packages with name shadowing
          and re-exports): emitted by TLC with the import state before every parse, replayed in fresh processes; random
          histories recorded with the observed import state; Optional[List[C]] / List[Optional[C]] / Optional[Dict[str, C]];
          sub-config files; the same argument below a sub-command.
  All recorded observations (accept/reject, normalised spec, constructor log, type of the result, short-vs-explicit
  pairs) are validated by TLC against Trace_Classes (Ref clauses: verdict, Alg clause: drift).
"""
from __future__ import annotations

import hashlib
import importlib
import io
import json
import multiprocessing as mp
import os
import sys
from contextlib import redirect_stderr, redirect_stdout

from ..lib import common, tlc
from ..lib.evidence import Report, machinery_failure

common.check_repo_import()
import jsonargparse  # noqa: E402
from jsonargparse import ActionConfigFile, ArgumentError, ArgumentParser, Namespace, lazy_instance  # noqa: E402

PID = "C14"
WORKERS = int(os.environ.get("VERIF_TLC_WORKERS", "16"))
HEAP = os.environ.get("VERIF_TLC_HEAP", "8g")
NOMOD = "verif_no_such_module_zz"
_DIGITS = __import__("re").compile(r"^-?[0-9]+$")


def fix(x):
    """TLC prints an empty function as []: normalise d / a / w / kw payloads to {}"""
    if isinstance(x, dict):
        out = {}
        for k, v in x.items():
            if k in ("d", "a", "w", "kw", "cls", "fn") and v == []:
                out[k] = {}
            else:
                out[k] = fix(v)
        return out
    if isinstance(x, list):
        return [fix(v) for v in x]
    return x


# ---------------------------------------------------------------- gamma: family -> module source
def type_text(t) -> str:
    k = t["k"]
    return {"int": "int", "str": "str", "cls": t["c"], "opt": f"Optional[{t['c']}]", "list": f"List[{t['c']}]",
            "dict": f"Dict[str, {t['c']}]", "union": f"Union[{t['c']}, {t['c2']}]",
            "optlist": f"Optional[List[{t['c']}]]", "listopt": f"List[Optional[{t['c']}]]", "optdict": f"Optional[Dict[str, {t['c']}]]"}[k]


def lit(v) -> str:
    k = v["k"]
    if k == "int":
        return repr(int(v["i"]))
    if k == "str":
        return repr(v["s"])
    if k == "dstr":
        return repr(str(int(v["i"])))
    if k == "null":
        return "None"
    raise ValueError(f"no literal for {v}")


def params_text(params) -> str:
    return "".join(f", {p['n']}: {type_text(p['t'])}" + ("" if p["req"] else f" = {lit(p['d'])}") for p in params)


def family_source(fam) -> str:
    src = ["from abc import ABC, abstractmethod", "from typing import Dict, List, Optional, Union", "", "LOG = []", "", "",
           "def _rec(obj, name, kw):", "    LOG.append((name, kw))", "    obj._verif_idx = len(LOG)", "", ""]
    done: list = []
    extkeys = {b["c"] for b in fam.get("ext", []) if b["def"]}
    todo = {k: v for k, v in fam["cls"].items() if k not in extkeys}       # classes of the layout's other modules: ext_sources
    while todo:
        progressed = False
        for name in sorted(todo):
            c = todo[name]
            needs = {c["parent"]} if c["parent"] else set()
            for p in c["params"]:
                needs |= {x for x in (p["t"]["c"], p["t"]["c2"]) if x}
            if needs - set(done) - {name}:
                continue
            base = c["parent"] or ("ABC" if c["abs"] else "")
            src.append(f"class {name}({base}):" if base else f"class {name}:")
            kwa = ", **kwargs" if c["kw"] else ""
            names = ", ".join(f"{p['n']}={p['n']}" for p in c["params"]) + (", **kwargs" if c["kw"] else "")
            src.append(f"    def __init__(self{params_text(c['params'])}{kwa}):")
            src.append(f"        _rec(self, {name!r}, dict({names.lstrip(', ')}))")
            if c["abs"]:
                src += ["", "    @abstractmethod", "    def run(self): ..."]
            else:
                src += ["", "    def run(self):", "        return None"]
            src += ["", ""]
            done.append(name)
            del todo[name]
            progressed = True
        if not progressed:
            raise ValueError(f"cyclic family: {sorted(todo)}")
    for name, f in sorted(fam["fn"].items()):
        names = ", ".join(f"{p['n']}={p['n']}" for p in f["params"])
        src.append(f"def {name}({params_text(f['params']).lstrip(', ')}) -> {f['ret']}:")
        src.append(f"    obj = {f['ret']}.__new__({f['ret']})")
        src.append(f"    _rec(obj, {name!r}, dict({names}))")
        src += ["    return obj", "", ""]
    for name in fam["other"]:
        src.append(f"{name} = 3")
    return "\n".join(src) + "\n"


def ext_sources(fam, modname) -> dict:
    """round 4: the other modules / packages of the family's layout (fam["ext"]): relative file path -> source.  A unit whose
    bindings name a sub-module (P.v2) is a package <modname>_P with __init__.py (imports .v2, defines the classes bound at P that
    are defined there, re-exports the others from .v2) and v2.py; otherwise a module <modname>_<unit>.py.  The classes log under
    their KEY and carry it as _verif_key, so an observation tells which class object was named / built."""
    out: dict = {}
    ext = fam.get("ext", [])

    def class_src(b):
        c = fam["cls"][b["c"]]
        base = f"_M.{c['parent']}" if c["parent"] else ""
        kwa = ", **kwargs" if c["kw"] else ""
        names = ", ".join(f"{p['n']}={p['n']}" for p in c["params"]) + (", **kwargs" if c["kw"] else "")
        return [f"class {b['n']}({base}):" if base else f"class {b['n']}:", f"    _verif_key = {b['c']!r}", "",
                f"    def __init__(self{params_text(c['params'])}{kwa}):", f"        _M._rec(self, {b['c']!r}, dict({names.lstrip(', ')}))", "",
                "    def run(self):", "        return None", "", ""]

    head = ["from typing import Dict, List, Optional, Union", f"import {modname} as _M", "", ""]
    for u in sorted({b["u"] for b in ext}):
        bs = [b for b in ext if b["u"] == u]
        if any("." in b["m"] for b in bs):
            init = head + ["from . import v2", "", ""]
            sub = list(head)
            for b in bs:
                if b["m"] == u and b["def"]:
                    init += class_src(b)
                elif b["m"] == u:
                    init += [f"from .v2 import {b['n']}", ""]
                elif b["def"]:
                    sub += class_src(b)
            out[f"{modname}_{u}/__init__.py"] = "\n".join(init) + "\n"
            out[f"{modname}_{u}/v2.py"] = "\n".join(sub) + "\n"
        else:
            src = list(head)
            for b in bs:
                src += class_src(b)
            out[f"{modname}_{u}.py"] = "\n".join(src) + "\n"
    return out


_MODS: dict = {}
_EXTKEY: dict = {}       # module name of a family -> {ext class key: its defining import path (module label, name)}


def load_family(fam, scratch):
    src = family_source(fam)
    h = hashlib.sha1((src + json.dumps(fam.get("ext", []), sort_keys=True)).encode()).hexdigest()[:16]
    name = f"verif_fam_{h}"
    if name not in _MODS:
        path = os.path.join(scratch, name + ".py")
        if not os.path.exists(path):
            for rel, text in ext_sources(fam, name).items():        # the other modules of the layout: written, NOT imported
                full = os.path.join(scratch, rel)
                os.makedirs(os.path.dirname(full), exist_ok=True)
                tmp = full + f".{os.getpid()}"
                with open(tmp, "w") as f:
                    f.write(text)
                os.replace(tmp, full)
            tmp = path + f".{os.getpid()}"
            with open(tmp, "w") as f:
                f.write(src)
            os.replace(tmp, path)
        _EXTKEY[name] = {b["c"]: (b["m"], b["n"]) for b in fam.get("ext", []) if b["def"]}
        if scratch not in sys.path:
            sys.path.insert(0, scratch)
        importlib.invalidate_caches()
        _MODS[name] = importlib.import_module(name)
    return _MODS[name]


# ---------------------------------------------------------------- gamma: sources -> argv
_FILES = {"dir": None, "n": 0, "made": []}


def file_for(v, modname):
    """a sub-config file whose content is the value v["v"]; returns its (absolute) path"""
    content = json.dumps(to_json(v["v"], modname))
    _FILES["n"] += 1
    path = os.path.join(_FILES["dir"], f"sub_{os.getpid()}_{_FILES['n']}.json")
    with open(path, "w") as f:
        f.write(content)
    _FILES["made"].append((path, content))
    return path


def files_in(v, top=True):
    """(is there a file value, is there one that is not the direct value of the option --x)"""
    k = v.get("k")
    if k == "file":
        a, b = files_in(v["v"], False)
        return True, (not top) or a or b
    if k == "dict":
        r = [files_in(x, False) for x in v["d"].values()]
    elif k == "list":
        r = [files_in(x, False) for x in v["l"]]
    else:
        return False, False
    return any(a for a, _ in r), any(b for _, b in r)


def to_json(v, modname):
    k = v["k"]
    if k == "file":
        return file_for(v, modname)
    if k == "ref":
        return ref_text(v, modname)
    if k == "str":
        return v["s"]
    if k == "dstr":
        return str(int(v["i"]))
    if k == "int":
        return int(v["i"])
    if k == "null":
        return None
    if k == "dict":
        return {n: to_json(x, modname) for n, x in v["d"].items()}
    if k == "list":
        return [to_json(x, modname) for x in v["l"]]
    raise ValueError(f"no json for {v}")


def ref_text(v, modname):
    if v["m"] == "":
        return v["n"]
    if v["m"] == "M":
        if v["n"] in _EXTKEY.get(modname, {}):          # an internal reference to a class of another module: its defining path
            m, n = _EXTKEY[modname][v["n"]]
            return f"{modname}_{m}.{n}"
        return modname + "." + v["n"]
    if v["m"] == "X":
        return NOMOD + "." + v["n"]
    return f"{modname}_{v['m']}.{v['n']}"               # a module / package of the family's layout


def cp_key(cp, modname):
    """the class a normalised class_path NAMES: the plain name for the family's module; for the other modules of the layout the
    path is imported (importlib, not jsonargparse) and the object found there says which class it is (_verif_key)"""
    if not isinstance(cp, str):
        return "?" + str(cp)
    if cp.startswith(modname + "."):
        return cp[len(modname) + 1:]
    if cp.startswith(modname + "_") and "." in cp:
        mpath, _, attr = cp.rpartition(".")
        try:
            obj = getattr(importlib.import_module(mpath), attr)
            return getattr(obj, "_verif_key", "?" + cp)
        except Exception:
            return "?" + cp
    return "?" + cp


def to_text(v, modname) -> str:
    k = v["k"]
    if k == "file":
        return file_for(v, modname)
    if k == "ref":
        return ref_text(v, modname)
    if k == "str":
        return v["s"]
    if k in ("int", "dstr"):
        return str(int(v["i"]))
    if k == "null":
        return "null"
    return json.dumps(to_json(v, modname))


def render(items, modname, flavour, scratch, tag, section=None):
    argv = []
    nfile = 0
    for it in items:
        if it["k"] == "whole":
            argv += ["--x", to_text(it["v"], modname)] if flavour & 2 else ["--x=" + to_text(it["v"], modname)]
        elif it["k"] == "dot":
            key = "--x." + ".".join(it["p"])
            argv += [key, to_text(it["v"], modname)] if flavour & 2 else [key + "=" + to_text(it["v"], modname)]
        elif it["k"] == "cfg":
            text = json.dumps({"x": to_json(it["v"], modname)} if section is None else {section: {"x": to_json(it["v"], modname)}})
            if flavour & 4:
                nfile += 1
                path = os.path.join(scratch, f"cfg_{tag}_{nfile}.json")
                with open(path, "w") as f:
                    f.write(text)
                argv += ["--cfg", path]
            else:
                argv.append("--cfg=" + text)
        else:
            raise ValueError(it)
    return argv


# ---------------------------------------------------------------- alpha
def a_str(s):
    """a str of digits is its own abstract kind (see DStr in Classes.tla)"""
    if _DIGITS.match(s) and str(int(s)) == s and abs(int(s)) < 2**31:
        return {"k": "dstr", "i": int(s)}
    return {"k": "str", "s": s}


def alpha(v, modname):
    if v is None:
        return {"k": "null"}
    if type(v) is bool:
        return {"k": "other", "s": repr(v)}
    if type(v) is int:
        return {"k": "int", "i": v}
    if type(v) is str:
        return a_str(v)
    if isinstance(v, Namespace):
        v = dict(vars(v))
    if isinstance(v, dict):
        v = {n: x for n, x in v.items() if n != "__path__"}      # where a sub-config file was read from: not part of the configuration
        if "class_path" in v:
            cp = v["class_path"]
            c = cp_key(cp, modname)
            ia = v.get("init_args") or {}
            if isinstance(ia, Namespace):
                ia = dict(vars(ia))
            if isinstance(ia, dict):
                ia = {n: x for n, x in ia.items() if n != "__path__"}
            dk = v.get("dict_kwargs") or {}
            extra = set(v) - {"class_path", "init_args", "dict_kwargs"}
            if extra or not isinstance(ia, dict) or not isinstance(dk, dict):
                return {"k": "other", "s": repr(v)[:120]}
            return {"k": "spec", "c": c, "a": {n: alpha(x, modname) for n, x in ia.items()}, "w": {n: alpha(x, modname) for n, x in dk.items()}}
        return {"k": "dict", "d": {str(n): alpha(x, modname) for n, x in v.items()}}
    if isinstance(v, list):
        return {"k": "list", "l": [alpha(x, modname) for x in v]}
    return {"k": "other", "s": f"{type(v).__name__}:{v!r}"[:120]}


def alpha_obj(v):
    """a value as a constructor received it"""
    if v is None:
        return {"k": "null"}
    if type(v) is int:
        return {"k": "int", "i": v}
    if type(v) is str:
        return a_str(v)
    if hasattr(v, "_verif_idx"):
        return {"k": "obj", "i": v._verif_idx}
    if isinstance(v, list):
        return {"k": "list", "l": [alpha_obj(x) for x in v]}
    if isinstance(v, dict):
        return {"k": "dict", "d": {str(n): alpha_obj(x) for n, x in v.items()}}
    return {"k": "other", "s": f"{type(v).__name__}:{v!r}"[:120]}


REJ = {"k": "rej"}
NONE = {"k": "none"}


def make_default(dflt, mod, flavour):
    """the default of --x: lazy_instance(C, **init_args) or the dict form (class defaults only; factories as dict)"""
    d = dflt["d"]
    cref = d["class_path"]
    ia = {} if "init_args" not in d else {n: to_json(x, mod.__name__) for n, x in d["init_args"]["d"].items()}
    obj = getattr(mod, cref["n"], None)
    if (flavour & 8) or not isinstance(obj, type) or cref["m"] != "M":
        out = {"class_path": ref_text(cref, mod.__name__)}
        if ia:
            out["init_args"] = ia
        return out, f"default={out!r}"
    return lazy_instance(obj, **ia), f"default=lazy_instance({cref['n']}, **{ia!r})"


def execute(fam, T, items, flavour, scratch, dflt=None, chan="argv", host="top"):
    mod = load_family(fam, scratch)
    modname = mod.__name__
    _FILES["dir"], _FILES["made"] = scratch, []
    has_default = dflt is not None and dflt.get("k") != "none"
    first_by_channel = chan != "argv" and len(items) > 0
    fl_any = fl_nested = False
    for it in items:
        a, b = files_in(it["v"], it["k"] != "dot")
        fl_any, fl_nested = fl_any or a, fl_nested or b
    if fl_nested:
        flavour |= 1            # only add_subclass_arguments(sub_configs=True) hands sub_configs down to the class parsers
    if host == "sub":
        if chan != "argv":
            raise ValueError("a sub-command host is only generated for the command-line channel")
        # the config source at the head of the sequence may be a section of a --cfg of the ROOT parser (before the sub-command's name)
        # ONE section at most: several root-level sections for the same sub-command are merged by the ROOT parser, which has no typed
        # action for fit.x (the second replaces / leaf-merges the first untyped: `"Sub2"` then `{"init_args": ...}` ends as the declared
        # class) -- how config sources combine below sub-commands is the subject of C04 / C17, not of this property
        nroot = 1 if (flavour & 16) and items and items[0]["k"] == "cfg" else 0
        argv = (render(items[:nroot], modname, flavour, scratch, f"{os.getpid()}r", section="fit") + ["fit"]
                + render(items[nroot:], modname, flavour, scratch, f"{os.getpid()}"))
    else:
        argv = render(items[1:] if first_by_channel else items, modname, flavour, scratch, f"{os.getpid()}")
    pkw = {}
    how = "parse_args"
    text = ""
    if first_by_channel:
        v0 = items[0]["v"]
        if chan == "dcf":
            path = os.path.join(scratch, f"dcf_{os.getpid()}.json")
            with open(path, "w") as f:
                f.write(json.dumps({"x": to_json(v0, modname)}))
            pkw["default_config_files"] = [path]
        elif chan == "env":
            pkw.update(default_env=True, env_prefix="APP")
            text = to_text(v0, modname)
            how = "parse_env" if not argv else "parse_args+environ"
        elif chan == "string":
            text = json.dumps({"x": to_json(v0, modname)})
            how = "parse_string"
        else:
            raise ValueError(chan)
    p = ArgumentParser(exit_on_error=False, **pkw)
    p.add_argument("--cfg", action=ActionConfigFile)
    akw = {}
    dtxt = ""
    if has_default:
        akw["default"], dtxt = make_default(dflt, mod, flavour)
    if fl_any:
        dtxt = (dtxt + ", " if dtxt else "") + ("" if flavour & 1 else "enable_path=True")
    if flavour & 1:     # add_subclass_arguments always adds its argument with sub_configs=True (_signatures.py:513-515)
        p.add_subclass_arguments(getattr(mod, T), "x", **akw)
    else:
        if fl_any:
            akw["enable_path"] = True
        p.add_argument("--x", type=getattr(mod, T), **akw)
    sub = p
    if host == "sub":       # the parser with --x is the parser of the sub-command `fit` of a root parser
        p = ArgumentParser(exit_on_error=False)
        p.add_argument("--cfg", action=ActionConfigFile)
        oth = ArgumentParser(exit_on_error=False)
        oth.add_argument("--y", type=int, default=0)
        sc = p.add_subcommands()
        sc.add_subcommand("fit", sub)
        sc.add_subcommand("other", oth)
    xkey = "fit.x" if host == "sub" else "x"
    mod.LOG.clear()
    obs = {"ok": False, "v": REJ, "inst": "skip", "log": [], "root": 0, "rtype": ""}
    err = ""
    buf = io.StringIO()
    decl = f"add_subclass_arguments(T, 'x'{', ' + dtxt if dtxt else ''})" if flavour & 1 else f"add_argument('--x', type=T{', ' + dtxt if dtxt else ''})"
    call = {"parse_args": f"p.parse_args({argv!r})", "parse_env": f"p.parse_env({{'APP_X': {text!r}}})",
            "parse_args+environ": f"os.environ['APP_X'] = {text!r}; p.parse_args({argv!r})", "parse_string": f"p.parse_string({text!r})"}[how]
    py = (f"# module {modname}:\n{family_source(fam)}\n# p = ArgumentParser(exit_on_error=False{''.join(', %s=%r' % kv for kv in pkw.items())}); "
          f"p.add_argument('--cfg', action=ActionConfigFile); p.{decl}  (T = {T})\n"
          + ("# p is the parser of the sub-command `fit`: root = ArgumentParser(exit_on_error=False); root.add_argument('--cfg', action=ActionConfigFile); "
             "sc = root.add_subcommands(); sc.add_subcommand('fit', p); sc.add_subcommand('other', <parser with --y>); parse / instantiate with root, look at cfg.fit.x\n" if host == "sub" else "")
          + "".join(f"# file {pa}: {co}\n" for pa, co in _FILES["made"])
          + (f"# default config file content: {json.dumps({'x': to_json(items[0]['v'], modname)})}\n" if first_by_channel and chan == "dcf" else "")
          + f"# cfg = {call}; init = p.instantiate_classes(cfg)")
    try:
        with redirect_stderr(buf), redirect_stdout(buf):
            if how == "parse_args":
                cfg = p.parse_args(list(argv))
            elif how == "parse_env":
                cfg = p.parse_env({"APP_X": text})
            elif how == "parse_string":
                cfg = p.parse_string(text)
            else:
                old_env = os.environ.get("APP_X")
                os.environ["APP_X"] = text
                try:
                    cfg = p.parse_args(list(argv))
                finally:
                    if old_env is None:
                        os.environ.pop("APP_X", None)
                    else:
                        os.environ["APP_X"] = old_env
    except ArgumentError as ex:
        return obs, py, str(ex)[:400]
    except Exception as ex:
        obs["v"] = {"k": "other", "s": "parse raised " + type(ex).__name__}
        obs["ok"] = True  # not an ArgumentError: shows up as a parse outcome nobody allows
        return obs, py, type(ex).__name__ + ": " + str(ex)[:400]
    if mod.LOG:
        err += f"constructors ran during parsing: {mod.LOG!r}"[:200]
        obs["ok"], obs["v"] = True, {"k": "other", "s": "constructed-at-parse"}
        return obs, py, err
    x = cfg.get(xkey)
    obs["ok"] = True
    obs["v"] = alpha(x, modname)
    if obs["v"]["k"] != "spec":
        return obs, py, err
    try:
        with redirect_stderr(buf), redirect_stdout(buf):
            init = p.instantiate_classes(cfg)
        res = init.get(xkey)
        obs["inst"] = "ok"
        obs["log"] = [{"c": n, "kw": {k: alpha_obj(v) for k, v in kw.items()}} for n, kw in mod.LOG]
        obs["root"] = getattr(res, "_verif_idx", 0)
        obs["rtype"] = getattr(type(res), "_verif_key", type(res).__name__)
    except Exception as ex:
        obs["inst"] = "raise"
        err += "instantiate_classes: " + type(ex).__name__ + ": " + str(ex)[:300]
    return obs, py, err


def units_loaded(fam, modname):
    """which late units of the family's layout are imported in THIS process right now (observed, from sys.modules)"""
    return [u for u in fam.get("late", []) if f"{modname}_{u}" in sys.modules]


def execute_history(fam, steps, flavour, scratch):
    """round 4: the parses of ONE process, in order, interleaved with imports of late units of the layout.  Runs in a process of its
    own (the pool gives every history a fresh child).  Per parse step: (observed vis before the parse, obs, py, err)."""
    mod = load_family(fam, scratch)
    modname = mod.__name__
    out = []
    trail = []
    for k, st in enumerate(steps):
        if st["ev"] == "import":
            importlib.import_module(f"{modname}_{st['m']}")
            trail.append(f"import {modname}_{st['m']}")
            out.append(None)
            continue
        vis = units_loaded(fam, modname)
        obs, py, err = execute(fam, st["T"], st["items"], flavour, scratch)
        call = py.rsplit("\n", 1)[-1]
        py = py + "".join(f"\n# file {rel}:\n{text}" for rel, text in ext_sources(fam, modname).items()) + \
            "\n# earlier in the same process:\n# " + "\n# ".join(trail or ["(nothing)"]) + "\n" + call
        trail.append(f"(T = {st['T']}) " + call.lstrip("# "))
        out.append((vis, obs, py, err))
    return out


def _work_history(job):
    idx, fi, steps, flavour = job
    try:
        return idx, execute_history(_G["fams"][fi], steps, flavour, _G["scratch"])
    except Exception as ex:
        import traceback

        return idx, {"machinery": type(ex).__name__ + ": " + str(ex)[:300] + traceback.format_exc()[-800:]}


def run_histories(jobs, fams, scratch, procs=16):
    _G["fams"], _G["scratch"] = fams, scratch
    ctx = mp.get_context("fork")
    with ctx.Pool(procs, maxtasksperchild=1) as pool:         # a fresh process per history: imports must not leak
        res = pool.map(_work_history, jobs, chunksize=1)
    res.sort(key=lambda r: r[0])
    return res


def rnd_history(rnd, fam):
    """a random history over the layout of the family: imports of late units and parses that name the classes of the layout by
    bare name, by every bound path, by the module path, with and without init_args"""
    binds = fam["ext"]
    names = sorted({b["n"] for b in binds} | {"Sub1", "Sub3"})

    def cref():
        q = rnd.random()
        if q < 0.45:
            b = rnd.choice(binds)
            return {"k": "ref", "m": b["m"], "n": b["n"]}
        if q < 0.85:
            return {"k": "ref", "m": "", "n": rnd.choice(names)}
        return {"k": "ref", "m": "M", "n": rnd.choice(["Sub1", "Sub3", "Base"])}

    def val():
        ref = cref()
        if rnd.random() < 0.5:
            return ref
        ia = rnd.choice([{"a": I_(rnd.randint(40, 60))}, {"b": S_("k")}, {"e": S_("w")}, {"q": I_(3)}])
        return {"k": "dict", "d": {"class_path": ref, "init_args": {"k": "dict", "d": ia}}}

    steps = []
    for _ in range(rnd.randint(3, 7)):
        if rnd.random() < 0.2:
            steps.append({"ev": "import", "T": "", "items": [], "m": rnd.choice(fam["late"])})
            continue
        T = "Base" if rnd.random() < 0.8 else "Outer"
        items = []
        for _j in range(1 if rnd.random() < 0.7 else 2):
            v = val()
            # within ONE parse a source that names a path of the layout imports its unit, which changes what a bare name means for
            # the LATER sources of the same parse; the family of a case is the family when the parse starts (see the assumptions):
            # after such a source no bare name follows in the same parse
            while items and any('"m": "' + b["m"] + '"' in json.dumps(it["v"]) for it in items for b in binds) and '"m": ""' in json.dumps(v):
                v = val()
            if T == "Outer":
                v = {"k": "dict", "d": {"inner": v}}
            items.append({"k": "whole" if rnd.random() < 0.75 else "cfg", "v": v})
        if T == "Base" and rnd.random() < 0.2:
            n = rnd.choice(["a", "b", "e"])
            items.append({"k": "dot", "p": [n], "v": I_(rnd.randint(61, 69)) if n == "a" else S_("w")})
        steps.append({"ev": "parse", "T": T, "items": items, "m": ""})
    return steps


def split_log(log, root):
    """the part of a constructor log that built `root` (entries reachable through object references), renumbered"""
    if not root:
        return [], 0
    seen: list = []

    def refs(v, out):
        if v.get("k") == "obj":
            out.append(v["i"])
        elif v.get("k") == "list":
            for x in v["l"]:
                refs(x, out)
        elif v.get("k") == "dict":
            for x in v["d"].values():
                refs(x, out)

    def visit(i):
        if i in seen or not (1 <= i <= len(log)):
            return
        seen.append(i)
        out: list = []
        for x in log[i - 1]["kw"].values():
            refs(x, out)
        for j in out:
            visit(j)

    visit(root)
    order = sorted(seen)
    ren = {old: new + 1 for new, old in enumerate(order)}

    def rn(v):
        if v.get("k") == "obj":
            return {"k": "obj", "i": ren.get(v["i"], 0)}
        if v.get("k") == "list":
            return {"k": "list", "l": [rn(x) for x in v["l"]]}
        if v.get("k") == "dict":
            return {"k": "dict", "d": {n: rn(x) for n, x in v["d"].items()}}
        return v
    return [{"c": log[i - 1]["c"], "kw": {n: rn(x) for n, x in log[i - 1]["kw"].items()}} for i in order], ren[root]


def execute_pair(fam, T, items_a, items_b, flavour, scratch):
    """TWO class-typed arguments in one parser, --x and --x_ema (the first name is a string prefix of the second): the i-th
    sources of both cases arrive together in the i-th --cfg, so they are merged by merge_config; both results are observed"""
    mod = load_family(fam, scratch)
    modname = mod.__name__
    n = max(len(items_a), len(items_b))
    argv = []
    for i in range(n):
        data = {}
        if i < len(items_a):
            data["x"] = to_json(items_a[i]["v"], modname)
        if i < len(items_b):
            data["x_ema"] = to_json(items_b[i]["v"], modname)
        text = json.dumps(data)
        if flavour & 4:
            path = os.path.join(scratch, f"pair_{os.getpid()}_{i}.json")
            with open(path, "w") as f:
                f.write(text)
            argv += ["--cfg", path]
        else:
            argv.append("--cfg=" + text)
    p = ArgumentParser(exit_on_error=False)
    p.add_argument("--cfg", action=ActionConfigFile)
    if flavour & 1:
        p.add_subclass_arguments(getattr(mod, T), "x")
        p.add_subclass_arguments(getattr(mod, T), "x_ema")
    else:
        p.add_argument("--x", type=getattr(mod, T))
        p.add_argument("--x_ema", type=getattr(mod, T))
    mod.LOG.clear()
    blank = {"ok": False, "v": REJ, "inst": "skip", "log": [], "root": 0, "rtype": ""}
    oa, ob = dict(blank), dict(blank)
    buf = io.StringIO()
    py = (f"# module {modname}:\n{family_source(fam)}\n# p = ArgumentParser(exit_on_error=False); p.add_argument('--cfg', action=ActionConfigFile); "
          f"two arguments of type {T}: --x and --x_ema ({'add_subclass_arguments' if flavour & 1 else 'add_argument(type=)'})\n"
          f"# cfg = p.parse_args({argv!r}); init = p.instantiate_classes(cfg)")
    try:
        with redirect_stderr(buf), redirect_stdout(buf):
            cfg = p.parse_args(list(argv))
    except ArgumentError as ex:
        return oa, ob, py, str(ex)[:400]
    except Exception as ex:
        for o in (oa, ob):
            o["ok"], o["v"] = True, {"k": "other", "s": "parse raised " + type(ex).__name__}
        return oa, ob, py, type(ex).__name__ + ": " + str(ex)[:400]
    for o, key in ((oa, "x"), (ob, "x_ema")):
        o["ok"], o["v"] = True, alpha(cfg.get(key), modname)
    err = ""
    if oa["v"]["k"] != "spec" or ob["v"]["k"] != "spec":
        return oa, ob, py, err
    try:
        with redirect_stderr(buf), redirect_stdout(buf):
            init = p.instantiate_classes(cfg)
        full = [{"c": c, "kw": {k: alpha_obj(v) for k, v in kw.items()}} for c, kw in mod.LOG]
        used = 0
        for o, key in ((oa, "x"), (ob, "x_ema")):
            res = init.get(key)
            o["inst"] = "ok"
            o["log"], o["root"] = split_log(full, getattr(res, "_verif_idx", 0))
            o["rtype"] = type(res).__name__
            used += len(o["log"])
        if used != len(full):       # constructor calls that belong to neither result: make the log check fail
            ob["log"] = ob["log"] + [{"c": "?extra-constructor-calls", "kw": {}}]
    except Exception as ex:
        oa["inst"] = ob["inst"] = "raise"
        err += "instantiate_classes: " + type(ex).__name__ + ": " + str(ex)[:300]
    return oa, ob, py, err


def execute_dictarg(fam, T, key_items, flavour, scratch):
    """ONE argument --x typed Dict[str, T] (or Mapping[str, T]): key_items = [(key, items)], the i-th source is the dict of
    the i-th values of all keys; the first source is a --cfg, the later ones --cfg or a whole-value option --x=<json>.
    Every key is observed on its own (its normalised spec, the part of the constructor log that built its object)."""
    from typing import Dict, Mapping

    mod = load_family(fam, scratch)
    modname = mod.__name__
    n = max(len(items) for _, items in key_items)
    argv = []
    for i in range(n):
        data = {k: to_json(items[i]["v"], modname) for k, items in key_items if i < len(items)}
        if i > 0 and flavour & 2:
            argv.append("--x=" + json.dumps(data))
        elif flavour & 4:
            path = os.path.join(scratch, f"dictarg_{os.getpid()}_{i}.json")
            with open(path, "w") as f:
                f.write(json.dumps({"x": data}))
            argv += ["--cfg", path]
        else:
            argv.append("--cfg=" + json.dumps({"x": data}))
    cls = getattr(mod, T)
    hint = Mapping[str, cls] if flavour & 8 else Dict[str, cls]
    p = ArgumentParser(exit_on_error=False)
    p.add_argument("--cfg", action=ActionConfigFile)
    p.add_argument("--x", type=hint)
    mod.LOG.clear()
    blank = {"ok": False, "v": REJ, "inst": "skip", "log": [], "root": 0, "rtype": ""}
    obs = {k: dict(blank) for k, _ in key_items}
    buf = io.StringIO()
    py = (f"# module {modname}:\n{family_source(fam)}\n# p = ArgumentParser(exit_on_error=False); p.add_argument('--cfg', action=ActionConfigFile); "
          f"p.add_argument('--x', type={'Mapping' if flavour & 8 else 'Dict'}[str, {T}])\n# cfg = p.parse_args({argv!r}); init = p.instantiate_classes(cfg)")
    try:
        with redirect_stderr(buf), redirect_stdout(buf):
            cfg = p.parse_args(list(argv))
    except ArgumentError as ex:
        return obs, py, str(ex)[:400]
    except Exception as ex:
        for o in obs.values():
            o["ok"], o["v"] = True, {"k": "other", "s": "parse raised " + type(ex).__name__}
        return obs, py, type(ex).__name__ + ": " + str(ex)[:400]
    x = cfg.get("x")
    err = ""
    if not isinstance(x, dict) and not hasattr(x, "items"):
        for o in obs.values():
            o["ok"], o["v"] = True, {"k": "other", "s": "x is " + type(x).__name__}
        return obs, py, err
    last = {k for k, items in key_items if len(items) == n}
    if set(x.keys()) != last:
        err += f"keys of the result {sorted(x.keys())} are not the keys of the last source {sorted(last)}"
    for k, o in obs.items():
        if k in x:
            o["ok"], o["v"] = True, alpha(x[k], modname)
        else:
            o["ok"], o["v"] = True, {"k": "other", "s": "key missing in the result"}
    if any(o["v"]["k"] != "spec" for k, o in obs.items() if k in last):
        return obs, py, err
    try:
        with redirect_stderr(buf), redirect_stdout(buf):
            init = p.instantiate_classes(cfg)
        full = [{"c": c, "kw": {kk: alpha_obj(v) for kk, v in kw.items()}} for c, kw in mod.LOG]
        used = 0
        res = init.get("x")
        for k in last:
            o = obs[k]
            r = res[k]
            o["inst"] = "ok"
            o["log"], o["root"] = split_log(full, getattr(r, "_verif_idx", 0))
            o["rtype"] = type(r).__name__
            used += len(o["log"])
        if used != len(full):
            for k in last:
                obs[k]["log"] = obs[k]["log"] + [{"c": "?extra-constructor-calls", "kw": {}}]
    except Exception as ex:
        for k in last:
            obs[k]["inst"] = "raise"
        err += "instantiate_classes: " + type(ex).__name__ + ": " + str(ex)[:300]
    return obs, py, err


_G: dict = {}


def _work_dictarg(job):
    idx, fi, T, key_items, flavour = job
    try:
        obs, py, err = execute_dictarg(_G["fams"][fi], T, key_items, flavour, _G["scratch"])
        return idx, obs, py, err
    except Exception as ex:
        import traceback

        return idx, {"machinery": type(ex).__name__ + ": " + str(ex)[:300] + traceback.format_exc()[-600:]}, "", ""


def run_dictargs(jobs, fams, scratch, procs=16):
    _G["fams"], _G["scratch"] = fams, scratch
    ctx = mp.get_context("fork")
    with ctx.Pool(procs) as pool:
        res = pool.map(_work_dictarg, jobs, chunksize=16)
    res.sort(key=lambda r: r[0])
    return res


def _work_pair(job):
    idx, fi, T, ia, ib, flavour = job
    try:
        oa, ob, py, err = execute_pair(_G["fams"][fi], T, ia, ib, flavour, _G["scratch"])
        return idx, oa, ob, py, err
    except Exception as ex:
        import traceback

        return idx, {"machinery": type(ex).__name__ + ": " + str(ex)[:300] + traceback.format_exc()[-600:]}, {}, "", ""


def run_pairs(jobs, fams, scratch, procs=16):
    _G["fams"], _G["scratch"] = fams, scratch
    ctx = mp.get_context("fork")
    with ctx.Pool(procs) as pool:
        res = pool.map(_work_pair, jobs, chunksize=16)
    res.sort(key=lambda r: r[0])
    return res


def _work(job):
    idx, fi, T, items, flavour, dflt, chan, host = job
    try:
        obs, py, err = execute(_G["fams"][fi], T, items, flavour, _G["scratch"], dflt, chan, host)
        return idx, obs, py, err
    except Exception as ex:
        import traceback

        return idx, {"machinery": type(ex).__name__ + ": " + str(ex)[:300] + traceback.format_exc()[-600:]}, "", ""


def run_all(jobs, fams, scratch, procs=16):
    _G["fams"], _G["scratch"] = fams, scratch
    ctx = mp.get_context("fork")
    with ctx.Pool(procs) as pool:
        res = pool.map(_work, jobs, chunksize=32)
    res.sort(key=lambda r: r[0])
    return res


def flavour_of(idx, salt):
    r = (idx * 2654435761 + salt * 40503) & 0xFFFFFFFF
    fl = 0
    if (r >> 2) % 4 == 0:
        fl |= 1      # add_subclass_arguments instead of add_argument(type=)
    if (r >> 5) % 2 == 0:
        fl |= 2      # "--x value" instead of "--x=value"
    if (r >> 9) % 4 == 0:
        fl |= 4      # config through a file
    if (r >> 13) % 2 == 0:
        fl |= 8      # a default spec as a dict instead of lazy_instance
    if (r >> 17) % 2 == 0:
        fl |= 16     # below a sub-command: leading config sources as sections of a --cfg of the root parser
    return fl


# ---------------------------------------------------------------- random families and sources
def T_(k, c="", c2=""):
    return {"k": k, "c": c, "c2": c2}


def I_(n):
    return {"k": "int", "i": n}


def S_(s):
    return {"k": "str", "s": s}


def P_(n, t, d=None):
    return {"n": n, "t": t, "req": d is None, "d": d if d is not None else {"k": "none"}}


def rnd_family(rnd, salt):
    """a variation of the template: a base, 3-5 subclasses (adding / re-typing / requiring parameters, **kwargs), an unrelated
    class, an abstract base with an implementation, factories, owners with class-typed / Optional / List / Dict / Union
    parameters and an owner of an owner"""
    pn = rnd.sample(["a", "b", "c", "d", "e", "size", "name", "lr"], 5)
    base = "Base" + salt
    cls = {}
    cls[base] = {"parent": "", "abs": False, "kw": False, "params": [P_(pn[0], T_("int"), I_(rnd.randint(0, 9)))]}
    subs = []
    nsub = rnd.randint(3, 5)
    for i in range(nsub):
        name = f"Sub{i + 1}{salt}"
        parent = rnd.choice([base] + subs) if rnd.random() < 0.4 else base
        ps = []
        if rnd.random() < 0.3:
            ps.append(P_(pn[1 + i % 3], T_("int")))                      # a required parameter
        if rnd.random() < 0.8:
            retype = rnd.random() < 0.25
            ps.append(P_(pn[0], T_("str") if retype else T_("int"), S_("t") if retype else I_(rnd.randint(10, 19))))
        if rnd.random() < 0.6:
            k = rnd.choice(["str", "int"])
            nm = pn[1 + (i + 1) % 4]
            if nm not in [p["n"] for p in ps]:
                ps.append(P_(nm, T_(k), S_("s") if k == "str" else I_(rnd.randint(20, 29))))
        ps.sort(key=lambda p: not p["req"])
        cls[name] = {"parent": parent, "abs": False, "kw": rnd.random() < 0.25, "params": ps}
        subs.append(name)
    other = "Other" + salt
    cls[other] = {"parent": "", "abs": False, "kw": False, "params": [P_(pn[0], T_("int"), I_(5))]}
    absn, conc = "Abs" + salt, "Conc" + salt
    cls[absn] = {"parent": "", "abs": True, "kw": False, "params": [P_("z", T_("int"), I_(9))] if rnd.random() < 0.5 else []}
    cls[conc] = {"parent": absn, "abs": False, "kw": False, "params": [P_("z", T_("int"), I_(0))]}
    owners = []
    kinds = rnd.sample(["cls", "opt", "list", "dict", "union", "optlist", "listopt", "optdict"], rnd.randint(2, 5))
    for i, k in enumerate(kinds):
        name = f"Own{i + 1}{salt}"
        tgt = rnd.choice([base, base, absn]) if k in ("cls", "opt") else base
        t = T_(k, tgt, other if k == "union" else "")
        ps = [P_("inner" if k in ("cls", "opt", "union") else "inners", t, {"k": "null"} if k in ("opt", "optlist", "optdict") else None)]
        if rnd.random() < 0.5:
            ps.append(P_("n", T_("int"), I_(0)))
        cls[name] = {"parent": "", "abs": False, "kw": False, "params": ps}
        owners.append(name)
    pair = "Pair" + salt        # two class-typed parameters, the first name a string prefix of the second
    pnames = rnd.choice([("p", "p2"), ("model", "model_ema"), ("net", "net_b")])
    cls[pair] = {"parent": "", "abs": False, "kw": False,
                 "params": [P_(pnames[0], T_("cls", base)), P_(pnames[1], T_(rnd.choice(["cls", "opt"]), base), None)]}
    if cls[pair]["params"][1]["t"]["k"] == "opt":
        cls[pair]["params"][1] = P_(pnames[1], T_("opt", base), {"k": "null"})
    owners.append(pair)
    top = "Top" + salt
    cls[top] = {"parent": "", "abs": False, "kw": False, "params": [P_("own", T_("cls", owners[0])), P_("m", T_("int"), I_(1))]}
    fn = {"make" + salt: {"ret": rnd.choice([base] + subs), "params": [P_(pn[0], T_("int"), I_(7))]},
          "mk_other" + salt: {"ret": other, "params": []}}
    return {"cls": cls, "fn": fn, "other": ["notclass"], "ext": [], "late": [], "vis": []}


def rnd_items(rnd, fam, T):
    """a random sequence of sources for --x: T; knows the family, so most sequences are meaningful"""
    cls = fam["cls"]

    def issub(c, t):
        while c:
            if c == t:
                return True
            c = cls[c]["parent"]
        return False

    def subs_of(t):
        return [c for c in cls if issub(c, t) and not cls[c]["abs"]]

    def ref(c):
        return {"k": "ref", "m": rnd.choice(["", "M"]), "n": c}

    def leaf(t, bad=False):
        if t["k"] == "int":
            return S_("q") if bad else I_(rnd.randint(30, 99))
        return I_(3) if bad else ({"k": "dstr", "i": rnd.randint(40, 60)} if rnd.random() < 0.2 else S_(rnd.choice(["k", "w", "zed"])))

    def value_for(t, depth=0):
        """an input value for a parameter of type t"""
        k = t["k"]
        if k in ("int", "str"):
            return leaf(t, rnd.random() < 0.06)
        if k in ("opt", "optlist", "optdict") and rnd.random() < 0.25:
            return {"k": "null"}
        if k in ("list", "optlist"):
            return {"k": "list", "l": [spec_for(t["c"], depth + 1, False) for _ in range(rnd.randint(0, 3))]}
        if k == "listopt":
            return {"k": "list", "l": [{"k": "null"} if rnd.random() < 0.3 else spec_for(t["c"], depth + 1, False) for _ in range(rnd.randint(0, 3))]}
        if k in ("dict", "optdict"):
            return {"k": "dict", "d": {f"k{j}": spec_for(t["c"], depth + 1, False) for j in range(rnd.randint(0, 2))}}
        tgt = t["c2"] if k == "union" and rnd.random() < 0.4 else t["c"]
        return spec_for(tgt, depth + 1)

    def spec_for(t, depth=0, dk=True):
        r = rnd.random()
        cands = subs_of(t)
        if r < 0.05:
            wrong = [c for c in cls if not issub(c, t) and not cls[c]["abs"]]
            return rnd.choice([{"k": "ref", "m": "M", "n": rnd.choice(wrong)}, {"k": "ref", "m": "M", "n": "notclass"},
                               {"k": "ref", "m": "X", "n": cands[0] if cands else "Z"}, {"k": "ref", "m": "M", "n": "nonexist"}, I_(3)])
        if r < 0.12:
            fns = [f for f, d in fam["fn"].items() if issub(d["ret"], t)]
            if fns:
                return {"k": "ref", "m": "M", "n": rnd.choice(fns)}
        if not cands:
            return {"k": "ref", "m": "M", "n": "nonexist"}
        c = rnd.choice(cands)
        if r < 0.4:
            return ref(c)
        ia = {}
        for p in cls[c]["params"]:
            if (p["req"] and rnd.random() < 0.9) or rnd.random() < 0.4:
                if depth < 3 or p["t"]["k"] in ("int", "str"):
                    ia[p["n"]] = value_for(p["t"], depth)
        if rnd.random() < 0.05:
            ia["zz"] = I_(1)
        d = {"class_path": ref(c)}
        if ia:
            d["init_args"] = {"k": "dict", "d": ia}
        if dk and rnd.random() < (0.35 if cls[c]["kw"] else 0.04):   # not inside list / dict elements (see the assumptions)
            d["dict_kwargs"] = {"k": "dict", "d": {rnd.choice(["k", "j"]): I_(rnd.randint(1, 9))}}
        return {"k": "dict", "d": d}

    cur = T if not cls[T]["abs"] else None     # the class the generator believes is current (only a heuristic)
    items = []
    for _ in range(rnd.randint(1, 4)):
        r = rnd.random()
        how = "cfg" if rnd.random() < 0.25 else "whole"
        if r < 0.35 or cur is None:
            v = spec_for(T)
            items.append({"k": how, "v": v})
            if v["k"] == "ref" and v["n"] in cls:
                cur = v["n"]
            elif v["k"] == "dict" and v["d"]["class_path"]["n"] in cls:
                cur = v["d"]["class_path"]["n"]
        elif r < 0.5:
            ps = cls[cur]["params"]
            ia = {p["n"]: value_for(p["t"], 1) for p in ps if rnd.random() < 0.5}
            if not ia:
                ia = {"zz": I_(1)} if rnd.random() < 0.3 or not ps else {ps[0]["n"]: value_for(ps[0]["t"], 1)}
            form = rnd.random()
            v = {"k": "dict", "d": ia} if form < 0.5 else {"k": "dict", "d": {"init_args": {"k": "dict", "d": ia}}}
            items.append({"k": how, "v": v})
        else:
            # dotted sub-option, possibly two levels down
            ps = cls[cur]["params"]
            if not ps:
                items.append({"k": "dot", "p": ["zz"], "v": I_(1)})
                continue
            p = rnd.choice(ps)
            path = (["init_args"] if rnd.random() < 0.3 else []) + [p["n"]]
            t = p["t"]
            if t["k"] in ("cls", "opt", "union") and rnd.random() < 0.6:
                tgt = rnd.choice(subs_of(t["c"]) or [t["c"]])
                ps2 = cls[tgt]["params"]
                if ps2:
                    p2 = rnd.choice(ps2)
                    path += (["init_args"] if rnd.random() < 0.3 else []) + [p2["n"]]
                    t2 = p2["t"]
                    v = value_for(t2, 2) if t2["k"] in ("int", "str") else spec_for(t2["c"], 2) if t2["k"] in ("cls", "opt", "union") else value_for(t2, 2)
                    items.append({"k": "dot", "p": path, "v": v})
                    continue
            if rnd.random() < 0.08:
                path = ["dict_kwargs", rnd.choice(["k", "j"])]
                items.append({"k": "dot", "p": path, "v": I_(rnd.randint(1, 9))})
                continue
            items.append({"k": "dot", "p": path, "v": value_for(t, 1)})
    return items


def rnd_files(rnd, fam, T, items):
    """round 4: some of the values that stand where an OPTION's value is checked become sub-config files: the whole value of a
    whole / cfg source, the value of a dotted option, the value of a class-typed (C / Optional[C] / Union) parameter inside the
    init_args of a dict with class_path.  Never elements of lists / dicts, never leaf values, never null."""
    cls = fam["cls"]

    def classy(v):      # a file holds a mapping (a bare class name in a file is not a documented notation)
        return v["k"] == "dict" and len(v["d"]) > 0

    def inside(v, c, depth):
        """v: a dict with class_path naming class c (as far as the generator knows): wrap class-typed parameter values"""
        if v["k"] != "dict" or "class_path" not in v["d"] or "init_args" not in v["d"] or v["d"]["init_args"]["k"] != "dict":
            return v
        cp = v["d"]["class_path"]
        c = cp.get("n") if cp["k"] == "ref" else None
        if c not in cls:
            return v
        types = {p["n"]: p["t"] for p in cls[c]["params"]}
        ia = {}
        for n, x in v["d"]["init_args"]["d"].items():
            t = types.get(n)
            if t and t["k"] in ("cls", "opt", "union") and classy(x):
                x = inside(x, None, depth + 1)
                if rnd.random() < 0.5:
                    x = {"k": "file", "v": x}
            ia[n] = x
        d = dict(v["d"])
        d["init_args"] = {"k": "dict", "d": ia}
        return {"k": "dict", "d": d}

    out = []
    for it in items:
        v = it["v"]
        if it["k"] in ("whole", "cfg"):
            v = inside(v, None, 0)
            if classy(v) and rnd.random() < 0.4:
                v = {"k": "file", "v": v}
        elif classy(v) and ("class_path" in v["d"] or "init_args" in v["d"]):     # (a parameters-only dict could be the value of a Dict parameter)
            v = inside(v, None, 1)
            if rnd.random() < 0.5:
                v = {"k": "file", "v": v}
        out.append({**it, "v": v})
    return out


def rnd_default_case(rnd, fam, T, items):
    """the argument gets a DEFAULT that is a spec (a concrete subclass of T with some valid init_args) and the first source
    arrives through a random channel.  After a default config file only sources that do not designate a class follow;
    through the environment / parse_string there is exactly one source (see design.d/C14.md)."""
    cls = fam["cls"]

    def issub(c, t):
        while c:
            if c == t:
                return True
            c = cls[c]["parent"]
        return False

    def plain(t):
        return t["k"] in ("int", "str")

    cands = [c for c in cls if issub(c, T) and not cls[c]["abs"] and all(plain(p["t"]) or not p["req"] for p in cls[c]["params"])]
    if not cands:
        return NONE, "argv", items
    c = rnd.choice(cands)
    ia = {}
    for p in cls[c]["params"]:
        if plain(p["t"]) and (p["req"] or rnd.random() < 0.5):
            ia[p["n"]] = I_(rnd.randint(100, 199)) if p["t"]["k"] == "int" else S_(rnd.choice(["dv", "dw"]))
    d = {"class_path": {"k": "ref", "m": "M", "n": c}}
    if ia:
        d["init_args"] = {"k": "dict", "d": ia}
    dflt = {"k": "dict", "d": d}
    chan = rnd.choice(["argv", "dcf", "dcf", "env", "string"])

    def names_class(v):
        """does the value designate a class at any depth (a reference, or a dict with class_path)?"""
        if v["k"] in ("ref",):
            return True
        if v["k"] == "dict":
            return "class_path" in v["d"] or any(names_class(x) for x in v["d"].values())
        if v["k"] == "list":
            return any(names_class(x) for x in v["l"])
        return False

    def designates(it):
        return names_class(it["v"]) or (it["k"] != "dot" and it["v"]["k"] == "str")

    if chan == "argv":
        return dflt, chan, items
    # the first source must be a whole value; prefer the short forms without class_path
    ps = cls[c]["params"]
    first = None
    if ps and rnd.random() < 0.7:
        sub = {p["n"]: (I_(rnd.randint(200, 299)) if p["t"]["k"] == "int" else S_("cv")) for p in ps if plain(p["t"]) and rnd.random() < 0.6}
        if sub:
            first = {"k": "whole", "v": {"k": "dict", "d": sub} if rnd.random() < 0.4 else {"k": "dict", "d": {"init_args": {"k": "dict", "d": sub}}}}
    if first is None:
        first = next(({"k": "whole", "v": it["v"]} for it in items if it["k"] != "dot"), {"k": "whole", "v": {"k": "ref", "m": "", "n": c}})
    if chan in ("env", "string"):
        return dflt, chan, [first]
    rest = [it for it in items if not designates(it)][:2]
    return dflt, chan, [first] + rest


# ---------------------------------------------------------------- classification
def shape_key(items) -> str:
    def one(it):
        v = it["v"]
        kind = v["k"]
        if kind == "file":
            v = v["v"]
            kind = "file:" + v["k"]
        if v["k"] == "dict":
            kind = kind + "(" + "+".join(sorted(k for k in v["d"] if k in ("class_path", "init_args", "dict_kwargs")) or ["params"]) + ")"
        return it["k"] + (":" + ".".join("I" if s == "init_args" else "K" if s == "dict_kwargs" else "p" for s in it["p"]) if it["k"] == "dot" else "") + ":" + kind
    return "/".join(one(it) for it in items)[:100]


def main(argv):
    tier = "thorough" if (argv and argv[0] == "thorough") else "quick"
    rep = Report(PID, tier)
    rnd = common.rng(PID)
    rep.assumptions = [
        "generated classes have explicit __init__ signatures (int / str / class / Optional, List, Dict[str,.], Union of classes), log their keyword arguments and do not call super().__init__; **kwargs classes accept anything; factories are annotated functions returning an instance",
        "leaf values are drawn so that their text form is unambiguous (ints for int parameters, plain words for str parameters); leaf conversion is the subject of C02",
        "Ref pins the first Union member that accepts (documented trial order); key order of the normalised spec and the order of independent constructor calls are not compared (LogOK only asks: nested arguments first, one call per spec)",
        "dict_kwargs are not generated inside the elements of a List/Dict-of-class parameter: what a second assignment of a container inherits from the first is not pinned by the documentation",
        "a default that is a spec: the property allows both readings of whether the signature defaults of the default's class count as configured init_args (Trace_Classes compares with both); after a default config file only sources that do not designate a class are generated, the environment / parse_string channels carry exactly one source",
        "abstract classes are never designated by an explicit path (the property speaks about instantiable classes); the exception class of a rejection beyond ArgumentError is not compared",
        "alpha strips the generated module's name from class_path; the empty init_args / dict_kwargs of a spec are the empty mapping; a class_path of another module / package of the family's layout is imported (importlib) and the object found there says which class it names; __path__ (where a sub-config file was read from) is not part of the configuration",
        "round 4 -- histories: every history runs in a process of its own; the late units imported before a parse are what TLC computed from the earlier steps (emitted histories; checked against sys.modules) or what is observed in sys.modules (random histories); whether a normalised class_path is shortened (R.Quick for R.v2.Quick) is not compared, only which class object it imports to",
        "round 4 -- the family of a case is the family when the parse STARTS: inside one parse no bare class name follows a source that names a path of a late unit (the import triggered by the earlier source would change what the name means half-way; not modelled, not generated)",
        "round 4 -- sub-config files hold a mapping (class spec, init_args only, parameters only) and stand where an option's value is checked: the argument, a --cfg entry, a class-typed (C / Optional[C] / Union) parameter, a dotted option; absolute paths; sub_configs / enable_path is switched on exactly for the cases that use a file",
        "round 4 -- below a sub-command only the command-line channel is generated (default config files / environment with sub-commands are the subject of C04 / C17)",
    ]
    scratch = str(common.scratch("c14"))
    try:
        cfgname = f"MC_Classes_{tier}"
        mc = tlc.run("MC_Classes", cfgname, workers=WORKERS, timeout=3000, heap=HEAP)
        rep.add_tlc(cfgname, mc)
        if mc.errors:
            if mc.violated:
                rep.violation("model:" + ",".join(mc.violated), f"TLC: invariant {mc.violated} violated in the bounded model",
                              {"tlc_errors": mc.errors, "counterexample": mc.cex[:3000]})
                return rep.finish()
            machinery_failure(PID, "TLC failed on MC_Classes:\n" + mc.stdout[-3000:])
        famline = [p for p in mc.printed if isinstance(p, dict) and "fam" in p and "items" not in p]
        cases = [fix(p) for p in mc.printed if isinstance(p, dict) and "items" in p and "alg" in p]
        if len(famline) != 1 or not cases:
            machinery_failure(PID, f"MC_Classes emitted {len(famline)} families and {len(cases)} cases")
        fams = [fix(famline[0]["fam"])]
        for k in ("ext", "late", "vis"):
            fams[0].setdefault(k, [])
        histline = [p for p in mc.printed if isinstance(p, dict) and "hists" in p]
        if len(histline) != 1:
            machinery_failure(PID, f"MC_Classes emitted {len(histline)} history tables")
        hists = fix(histline[0]["hists"])
        cases.sort(key=lambda c: json.dumps(c["id"]))
        if len({json.dumps(c["id"]) for c in cases}) != len(cases):
            machinery_failure(PID, "duplicate case ids in the emission")
        # round 4: the cases <<"H", h, k, 0>> are the parses of history h (one process); they are replayed history by history below
        hcases = {(c["id"][1], c["id"][2]): c for c in cases if c["id"][0] == "H"}
        cases = [c for c in cases if c["id"][0] != "H"]
        rep.extra["mc_history_parses"] = len(hcases)
        rep.extra["mc_cases"] = len(cases)
        rep.extra["mc_cases_accepted"] = sum(1 for c in cases if c["alg"]["ok"])
        rep.extra["mc_cases_with_deviation"] = sum(1 for c in cases if c["ref"] != c["code"])

        # ---- the work list: every emitted case, the explicit form of every accepted one, random families
        work = []   # dicts: f, T, items, origin, pair (index into work or -1), mc (the emitted record or None)
        if tier == "thorough":
            # all cases with <= 2 sources, a seeded sample of the (many) 3-source sequences; explicit forms for a sample
            long3 = [i for i, c in enumerate(cases) if len(c["items"]) >= 3]
            keep = set(i for i, c in enumerate(cases) if len(c["items"]) < 3) | set(rnd.sample(long3, min(len(long3), 40000)))
            replay_cases = [c for i, c in enumerate(cases) if i in keep]
            pick = set(rnd.sample(range(len(replay_cases)), min(len(replay_cases), 12000)))
        else:
            replay_cases = cases
            pick = set(range(len(cases)))
        for c in replay_cases:
            work.append({"f": 0, "T": c["T"], "items": c["items"], "origin": "replay", "pair": -1, "mc": c, "dflt": c["dflt"], "chan": c["chan"]})
        for i, c in enumerate(replay_cases):
            if i in pick and c["explicit"] and c["ref"] == c["code"] and c["alg"]["ok"]:
                work.append({"f": 0, "T": c["T"], "items": c["explicit"], "origin": "explicit", "pair": i, "mc": None, "dflt": NONE, "chan": "argv"})
        # round 4: the same argument below a sub-command (`fit --x=...`, `fit --cfg=...`, or the section "fit" of a --cfg of the root):
        # a seeded stride of the emitted command-line cases (quick: 1/8 and half of the cases that involve a sub-config file; thorough: 1/4 and all of them), validated by TLC like the others
        stride = 8 if tier == "quick" else 4
        off = rnd.randrange(stride)
        for i, c in enumerate(replay_cases):
            if c["chan"] == "argv" and c["dflt"].get("k") == "none" and (tier == "quick" or len(c["items"]) < 3) and (
                    i % stride == off or ('"file"' in json.dumps(c["items"]) and (tier != "quick" or i % 2 == off % 2))):
                work.append({"f": 0, "T": c["T"], "items": c["items"], "origin": "replay-sub", "pair": -1, "mc": None, "dflt": NONE, "chan": "argv", "host": "sub"})
        nfam = 40 if tier == "quick" else 300
        per_fam = 40 if tier == "quick" else 80
        for fi in range(nfam):
            fam = rnd_family(rnd, f"R{fi}")
            fams.append(fam)
            decls = [c for c in fam["cls"] if c.startswith(("Base", "Own", "Top", "Abs", "Pair", "Pair"))]
            for _ in range(per_fam):
                T = rnd.choice(decls)
                items = rnd_items(rnd, fam, T)
                dflt, chan = NONE, "argv"
                if not fam["cls"][T]["abs"] and rnd.random() < 0.3:
                    dflt, chan, items = rnd_default_case(rnd, fam, T, items)
                host = "top"
                if chan == "argv" and rnd.random() < 0.25:
                    host = "sub"
                if chan == "argv" and rnd.random() < 0.2:
                    items = rnd_files(rnd, fam, T, items)
                work.append({"f": len(fams) - 1, "T": T, "items": items, "origin": "random", "pair": -1, "mc": None, "dflt": dflt, "chan": chan, "host": host})
        for w in work:
            w.setdefault("host", "top")
            w.setdefault("vis", [])
        jobs = [(i, w["f"], w["T"], w["items"], flavour_of(i, common.seed()), w["dflt"], w["chan"], w["host"]) for i, w in enumerate(work)]
        res = run_all(jobs, fams, scratch)
        for (i, obs, py, err), w in zip(res, work):
            if "machinery" in obs:
                machinery_failure(PID, f"gamma/alpha failed on work item {i} ({w['origin']}): {obs['machinery']}\n{json.dumps(w['items'])[:1500]}")
            w["obs"], w["py"], w["err"], w["flavour"] = obs, py, err, jobs[i][4]
        cases = replay_cases
        # ---- round 4: HISTORIES (one fresh process each): the emitted ones (spec -> code: TLC said which late units are imported
        #      before every parse and what the parse gives) and seeded random ones over the same layout (code -> spec: the imported
        #      units are OBSERVED in sys.modules before the parse); every parse is validated by TLC with the family at that time
        hjobs, hmeta = [], []
        for h, steps in enumerate(hists, start=1):
            hjobs.append((len(hjobs), 0, steps, flavour_of(h, common.seed() + 13) & 7))
            hmeta.append(("history", h, steps))
        for h in range(40 if tier == "quick" else 600):
            steps = rnd_history(rnd, fams[0])
            hjobs.append((len(hjobs), 0, steps, flavour_of(h, common.seed() + 17) & 7))
            hmeta.append(("random-history", h, steps))
        hres = run_histories(hjobs, fams, scratch)
        n_hist_parses = 0
        for (j, out), (origin, h, steps) in zip(hres, hmeta):
            if isinstance(out, dict):
                machinery_failure(PID, f"history {origin} {h} failed: {out['machinery']}")
            for k, (st, r) in enumerate(zip(steps, out), start=1):
                if r is None:
                    continue
                vis, obs, py, err = r
                if origin == "history":
                    c = hcases.get((h, k))
                    if c is None or c["items"] != st["items"]:
                        machinery_failure(PID, f"history {h} step {k}: no matching emitted case")
                    if sorted(c["vis"]) != sorted(vis):
                        machinery_failure(PID, f"history {h} step {k}: TLC expects the units {sorted(c['vis'])} to be imported, the process has {sorted(vis)}")
                n_hist_parses += 1
                work.append({"f": 0, "T": st["T"], "items": st["items"], "origin": origin, "pair": -1, "mc": None, "dflt": NONE, "chan": "argv", "host": "top",
                             "vis": sorted(vis), "obs": obs, "py": py, "err": err, "flavour": hjobs[j][3]})
        rep.extra["histories"] = len(hjobs)
        rep.extra["history_parses"] = n_hist_parses
        # ---- two class-typed arguments in ONE parser, --x / --x_ema: the sources of two emitted cases of declared class Base
        #      arrive pairwise in the same --cfg (merged by merge_config); each result must be what its own case says
        def cfg_only(c):
            return ('"file"' not in json.dumps(c["items"]) and c["T"] == "Base" and c["chan"] == "argv" and c["dflt"].get("k") == "none" and 1 <= len(c["items"]) <= 2
                    and all(it["k"] in ("whole", "cfg") for it in c["items"]))

        def as_cfg(items):
            return [{"k": "cfg", "v": it["v"]} for it in items]

        cands = [c for c in replay_cases if cfg_only(c)]
        good = [c for c in cands if c["alg"]["ok"] and c["ref"] == c["code"]]
        # companions for --x: accepted two-source cases whose sources are class specs both times (several class pairs)
        comp_all = [c for c in good if len(c["items"]) == 2 and all(it["v"]["k"] == "dict" and "class_path" in it["v"]["d"] for it in c["items"])]
        comp = comp_all[:: max(1, len(comp_all) // 12)][:12]
        second = [c for j, c in enumerate(cands) if c["alg"]["ok"] or j % 6 == 0]     # every accepted case, a stride of the rejected ones
        if tier == "quick":
            second = [c for j, c in enumerate(second) if len(c["items"]) == 2 or j % 3 == 0]
        pjobs, pmeta = [], []
        for j, cb in enumerate(second):
            if not comp:
                break
            ca = comp[j % len(comp)]
            pjobs.append((len(pjobs), 0, "Base", ca["items"], cb["items"], flavour_of(j, common.seed() + 5)))
            pmeta.append((ca, cb))
        pres = run_pairs(pjobs, fams, scratch) if pjobs else []
        for (j, oa, ob, py, err), (ca, cb) in zip(pres, pmeta):
            if "machinery" in oa:
                machinery_failure(PID, f"gamma/alpha failed on paired run {j}: {oa['machinery']}")
            base = {"f": 0, "T": "Base", "pair": -1, "mc": None, "dflt": NONE, "chan": "argv", "host": "top", "vis": [], "py": py, "err": err, "flavour": pjobs[j][5]}
            work.append({**base, "items": as_cfg(cb["items"]), "origin": "paired:x_ema", "obs": ob})
            if cb["alg"]["ok"] and cb["ref"] == cb["code"]:      # --x can only be judged when its sibling is expected to parse
                work.append({**base, "items": as_cfg(ca["items"]), "origin": "paired:x", "obs": oa})
        rep.extra["paired_two_argument_runs"] = len(pjobs)
        # ---- ONE argument typed Dict[str, Base] / Mapping[str, Base] with 2-3 keys: every key follows an emitted single-argument
        #      case of declared class Base (an element of a dict value is adapted like an argument: previous value by key);
        #      the key under test is the second one (not iterated first), the others are accepted companions
        def no_dk(c):
            return "dict_kwargs" not in json.dumps(c["items"])
        dcomp = [c for c in comp_all if no_dk(c)]
        dcomp = dcomp[:: max(1, len(dcomp) // 10)][:10]
        tested = [c for j, c in enumerate(cands) if len(c["items"]) == 2 and no_dk(c) and c["ref"] == c["code"] and (c["alg"]["ok"] or j % 8 == 0)]
        if tier == "quick":
            tested = [c for j, c in enumerate(tested) if j % 2 == 0 or c["items"][1]["v"]["k"] == "dict" and "class_path" not in c["items"][1]["v"]["d"]]
        djobs, dmeta = [], []
        for j, cb in enumerate(tested):
            if len(dcomp) < 2:
                break
            ca, cc = dcomp[j % len(dcomp)], dcomp[(j + 3) % len(dcomp)]
            keys = [("k1", ca), ("k2", cb)] + ([("k3", cc)] if j % 2 == 0 else [])
            djobs.append((len(djobs), 0, "Base", [(k, c["items"]) for k, c in keys], flavour_of(j, common.seed() + 9)))
            dmeta.append(keys)
        dres = run_dictargs(djobs, fams, scratch) if djobs else []
        for (j, obsd, py, err), keys in zip(dres, dmeta):
            if "machinery" in obsd:
                machinery_failure(PID, f"gamma/alpha failed on dict-argument run {j}: {obsd['machinery']}")
            base = {"f": 0, "T": "Base", "pair": -1, "mc": None, "dflt": NONE, "chan": "argv", "host": "top", "vis": [], "py": py, "err": err, "flavour": djobs[j][4]}
            cb = keys[1][1]
            for k, c in keys:
                if k == "k2" or (cb["alg"]["ok"] and cb["ref"] == cb["code"]):     # companions are judged when the key under test is expected to parse
                    work.append({**base, "items": as_cfg(c["items"]), "origin": "dict-argument:" + k, "obs": obsd[k]})
        rep.extra["dict_argument_runs"] = len(djobs)
        rep.extra["replayed_cases"] = len(cases)
        rep.extra["explicit_form_replays"] = sum(1 for w in work if w["origin"] == "explicit")
        rep.extra["random_families"] = nfam
        rep.extra["random_cases"] = sum(1 for w in work if w["origin"] == "random")
        rep.extra["replays_below_a_subcommand"] = sum(1 for w in work if w["origin"] == "replay-sub")
        rep.extra["random_cases_below_a_subcommand"] = sum(1 for w in work if w["origin"] == "random" and w["host"] == "sub")
        rep.extra["cases_with_sub_config_files"] = sum(1 for w in work if '"file"' in json.dumps(w["items"]))

        # ---- cross-check with what MC printed (must coincide with TLC's "alg" clause below)
        def parsed(o):
            return json.dumps({"ok": o["ok"], "v": o["v"] if o["ok"] else REJ}, sort_keys=True)
        n_eq = sum(1 for w in work if w["mc"] is not None and parsed(w["obs"]) == json.dumps({"ok": w["mc"]["alg"]["ok"], "v": w["mc"]["alg"]["v"]}, sort_keys=True))
        rep.extra["replay_equal_to_printed_outcome"] = n_eq

        # ---- TRACE: TLC validates everything that was recorded
        rejects: dict = {}
        explain: dict = {}
        groups: dict = {}
        # thorough: a replayed case whose observation equals, field by field, what MC_Classes printed (outcome, normal form,
        # constructor log in the same order, root, class of the result) and that has no deviation was already decided by TLC in
        # the MC run (AlgRefinesRef, LogRebuilds); only the others, the explicit forms and the random cases go to Trace_Classes
        paired = {w["pair"] for w in work if w["pair"] >= 0}
        settled = set()
        if tier == "thorough":
            for i, w in enumerate(work):
                c = w["mc"]
                if c is None or i in paired or c["ref"] != c["code"]:
                    continue
                o = w["obs"]
                if parsed(o) != json.dumps({"ok": c["alg"]["ok"], "v": c["alg"]["v"]}, sort_keys=True):
                    continue
                if not c["alg"]["ok"] or (o["inst"] == "ok" and o["log"] == c["log"] and o["root"] == len(c["log"]) and o["rtype"] == (
                        c["alg"]["v"]["c"] if c["alg"]["v"]["c"] in fams[0]["cls"] else fams[0]["fn"][c["alg"]["v"]["c"]]["ret"])):
                    settled.add(i)
        rep.extra["replays_settled_by_printed_outcome"] = len(settled)
        for i, w in enumerate(work):     # a case and the replay of its explicit form go into the same chunk
            if i in settled:
                continue
            groups.setdefault(w["pair"] if w["pair"] >= 0 else i, []).append(i)
        chunks, curchunk = [], []
        for g in sorted(groups):
            if curchunk and len(curchunk) + len(groups[g]) > 6000:
                chunks.append(curchunk)
                curchunk = []
            curchunk += sorted(groups[g])
        if curchunk:
            chunks.append(curchunk)
        for ci, part in enumerate(chunks):
            pos = {wi: j + 1 for j, wi in enumerate(part)}
            data = {"fams": fams, "cases": [{"f": work[wi]["f"] + 1, "T": work[wi]["T"], "items": work[wi]["items"], "obs": work[wi]["obs"],
                                             "dflt": work[wi]["dflt"], "chan": work[wi]["chan"], "host": work[wi]["host"], "vis": work[wi]["vis"],
                                             "pair": pos[work[wi]["pair"]] if work[wi]["pair"] >= 0 else 0} for wi in part]}
            f = os.path.join(scratch, f"trace_{ci}.json")
            with open(f, "w") as fh:
                json.dump(data, fh)
            tr = tlc.run("Trace_Classes", "Trace_Classes", workers=WORKERS, env={"TRACE_FILE": f}, timeout=3000, heap=HEAP)
            rep.add_tlc(f"Trace_Classes[{ci}]", tr)
            done = {p[1] for p in tr.printed if isinstance(p, list) and p and p[0] == "D"}
            if tr.errors or len(done) != len(part):
                machinery_failure(PID, f"trace validation failed (finished {len(done)} of {len(part)} cases):\n" + tr.stdout[-3000:])
            for p in tr.printed:
                if isinstance(p, list) and p and p[0] == "R":
                    rejects.setdefault(part[p[1] - 1], set()).add(p[2])
                elif isinstance(p, dict) and "explain" in p:
                    explain[part[p["explain"] - 1]] = fix({"ref": p["ref"], "alg": p["alg"]})
            os.unlink(f)

        n_alg = 0
        for wi, w in enumerate(work):
            clauses = rejects.get(wi, set())
            obs = w["obs"]
            if obs["ok"] and obs["inst"] == "ok" and not (clauses & {"ref", "ref-log", "ref-pair"}):
                rep.note_nontrivial(hashlib.sha1(json.dumps([w["f"], w["T"], w["items"], w["dflt"], w["chan"], w["host"], w["vis"]], sort_keys=True).encode()).hexdigest())
            if "alg" in clauses:
                n_alg += 1
            if not clauses:
                continue
            info = {"family": w["f"], "T": w["T"], "items": w["items"], "default": w["dflt"], "channel": w["chan"], "host": w["host"], "imported_late_units": w["vis"], "observed": obs, "error_text": w["err"], "failed_clauses": sorted(clauses),
                    "origin": w["origin"], "flavour": w["flavour"], "python": w["py"]}
            if wi in explain:
                info["spec_predicts"] = explain[wi]
            sk = shape_key(w["items"])
            verdict = False
            for cl in sorted(clauses):
                if cl == "ref-dev-stale":
                    rep.violation("dict_kwargs:stale-after-class-change", "dict_kwargs of the previous class survive a class change", info)
                    verdict = True
                elif cl == "ref-dev-nokw":
                    rep.violation("dict_kwargs:class-without-var-keyword", "dict_kwargs accepted for a class whose __init__ takes no **kwargs", info)
                    verdict = True
                elif cl == "ref-dev-envreq":
                    rep.violation("default-spec:env:required-only-in-default", "an environment variable that updates a default spec is rejected because a required init_arg is only in the default", info)
                    verdict = True
                elif cl == "ref-dev-emptydict":
                    rep.violation("dict-empty-previous:short-form-rejected", "a key of a Dict[str, C] value in short form is rejected when the previous value was the empty dict", info)
                    verdict = True
                elif cl == "ref-dev-listlen":
                    rep.violation("list-other-length-previous:short-form-rejected", "an element of a List[C] value in short form is rejected when the previous list had another length", info)
                    verdict = True
                elif cl == "ref-dev-nonetext":
                    rep.violation("dotted-two-levels:null-becomes-None-text", "a dotted option two or more levels down whose value is / contains null is rejected (the null arrives as the text 'None')", info)
                    verdict = True
                elif cl == "ref-dev-both":
                    rep.violation("dict_kwargs:stale+class-without-var-keyword", "stale dict_kwargs on a class without **kwargs", info)
                    verdict = True
                elif cl == "ref-inst-raise-nokw":
                    rep.violation("dict_kwargs:class-without-var-keyword:instantiate-raises", "instantiate_classes raises TypeError for the accepted dict_kwargs", info)
                    verdict = True
                elif cl == "ref":
                    rep.violation(f"parse:{'accepted' if obs['ok'] else 'rejected'}:{sk}", "accept/reject or the normalised spec is not what the property says", info)
                    verdict = True
                elif cl == "ref-log":
                    rep.violation(f"log:{sk}", "the constructor log does not rebuild the normalised spec (exact class, once, init_args + dict_kwargs, nested first)", info)
                    verdict = True
                elif cl == "ref-inst-raise":
                    rep.violation(f"instantiate-raises:{sk}", "instantiate_classes raised on an accepted spec", info)
                    verdict = True
                elif cl == "ref-pair":
                    rep.violation(f"short-vs-explicit:{shape_key(work[w['pair']]['items']) if w['pair'] >= 0 else sk}", "the explicit form does not give the same normalised spec as the short form", info)
                    verdict = True
            if not verdict and "alg" in clauses:
                rep.add_drift("real code agrees with Ref but not with the Alg transcription", info)
        # consistency of the two comparisons for replayed cases
        n_alg_replay = sum(1 for wi, w in enumerate(work) if w["mc"] is not None and wi not in settled and "alg" in rejects.get(wi, set()))
        if n_alg_replay != len(cases) - n_eq:
            machinery_failure(PID, f"MC and Trace disagree: {len(cases) - n_eq} replays differ from the printed outcome, Trace_Classes reports {n_alg_replay}")
        rep.traces = len(work)
        rep.evaluations = len(work)
        for j in (0, len(cases) // 2, len(cases) + 5, len(work) - 3):
            if 0 <= j < len(work):
                w = work[j]
                rep.sample({"origin": w["origin"], "T": w["T"], "items": w["items"], "observed": w["obs"], "python": w["py"][-400:]})
        rep.rule = ("cases = (family, declared class, source sequence): every case of MC_Classes replayed on the real parser, the explicit form of accepted "
                    "cases, and random families x random sequences; all validated by TLC against Trace_Classes; non-trivial & distinct = distinct cases "
                    "that were accepted, instantiated and whose constructor log rebuilt the normal form")
        rep.exhaustive = False
        rep.explanation = (f"MC_Classes: {len(cases)} cases ({mc.distinct} states), all invariants; replayed {len(cases)} + {rep.extra['explicit_form_replays']} explicit forms + "
                           f"{rep.extra['random_cases']} random cases over {nfam} random families; every observation validated by TLC. Exhaustive only w.r.t. the "
                           f"vocabulary and MaxLen of MC_Classes.")
    finally:
        common.rm(scratch)
    return rep.finish()


if __name__ == "__main__":
    args = sys.argv[1:]
    if args and args[0] == "--replay":
        print(open(args[1]).read())
        sys.exit(0)
    sys.exit(main(args))
