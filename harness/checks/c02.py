"""C02 — accepted values conform to the declared type; acceptance is compositional.

  MC      tlc MC_Types: every (type term, candidate input) of the bounded grammar; invariants RefLaws /
          RefPermInvariant (the property on the Ref layer), AlgRefinesRef / AlgPermInvariant / DevsAsDescribed
          (the transcription of adapt_typehints against Ref, outside the named deviations), Idempotent /
          DumpStable (C10); every case is printed with Ref's verdict and normal forms and Alg's prediction.
  REPLAY  (spec -> code) every printed case is executed on the real jsonargparse through
          parse_object({key: x}) and, for texts, parse_args(['--key=' + text]); accept/reject must equal
          Ref's Accepts, the result must be one of Ref's normal forms; an independent isinstance walk
          cross-checks the abstraction; all permutations of the members of every Union are in the instance and
          their real verdicts are compared with each other.
  TRACE   (code -> spec) seeded random type hints up to nesting depth 4 with candidates generated from the
          type are executed the same way and the recorded observations are validated by TLC (Trace_Types).
  A disagreement with Ref is a VIOLATION unless the real code behaves exactly as one of the NAMED deviations
  of the Alg layer that tools/findings.d/C02.json lists; agreement with Ref but not with Alg is drift.
"""
from __future__ import annotations

import json
import multiprocessing as mp
import os
import re
import sys
import typing
import zlib
from enum import Enum, IntEnum
from datetime import timedelta
from decimal import Decimal
from fractions import Fraction
from uuid import UUID
from typing import Any, Dict, List, Literal, Set, Tuple, Union

from ..lib import common, tlc
from ..lib.evidence import Report, machinery_failure

common.check_repo_import()
from jsonargparse import ArgumentError, ArgumentParser  # noqa: E402
from jsonargparse._util import Path as JPath  # noqa: E402
from jsonargparse.typing import NotEmptyStr, Path_fr, PositiveInt, get_registered_type, restricted_number_type, restricted_string_type  # noqa: E402

PID = "C02"
KEY = "k"


class E(Enum):
    A = 1
    B = 2


class F(Enum):
    A = 1
    C = 3


ENUMS = {"E": E, "F": F}


# Round 4: typed objects that are instances of SUBCLASSES of int / str (value kind `sub` of spec/Types.tla)
class MyInt(int):
    pass


class MyStr(str):
    pass


class IE(IntEnum):
    X = 1
    Y = 2


class SE(str, Enum):
    P = "abc"
    Q = "1"


SUB_CLASSES = {"MyInt": MyInt, "IntEnum": IE, "PositiveInt": PositiveInt, "MyStr": MyStr, "StrEnum": SE, "NotEmptyStr": NotEmptyStr}
SUB_INV = {v: k for k, v in SUB_CLASSES.items()}
LEAF = {"str": str, "int": int, "float": float, "bool": bool, "none": type(None), "any": Any}
LEAF_INV = {v: k for k, v in LEAF.items()}

# the text vocabulary of spec/Types.tla (YamlTbl); every other string the harness produces is a plain word
PLAIN_ALPHABET = "cdghkmpqwz"  # no YAML 1.1 special word (y, n, yes, no, on, off, true, false, null, ~, .inf ...) can be formed
FIXED_WORDS = {"abc", "a", "b", "A", "B", "C", "", " ", "x", "file.txt", "missing.txt"}
EXISTING_FILE = "file.txt"  # ExistingFiles of spec/Types.tla: present in the working directory of every worker
NONE = {"k": "none", "v": 0}
DEFLEAF = ("rstr", "rnum", "reg")  # leaf types that are defined by the tables RStrDefs / RNumDefs / RegDefs of spec/Types.tla
ATOMS = ("literal", "enum", "path") + DEFLEAF  # type terms without sub-terms (besides LEAF)
REG = {"timedelta": timedelta, "range": range, "decimal": Decimal, "complex": complex, "uuid": UUID, "bytes": bytes}
REG_INV = {v: k for k, v in REG.items()}
TYPEDEFS = None  # the tables, as printed by TLC
RSTR, RNUM = {}, {}  # name -> the real restricted type built from its definition
RSTR_INV, RNUM_INV = {}, {}


def install_typedefs(defs):
    """build the user-defined restricted types from the definitions that the specification printed"""
    global TYPEDEFS
    TYPEDEFS = defs
    for name, df in defs["rstr"].items():
        RSTR[name] = restricted_string_type("V_" + name, df["pat"])
        RSTR_INV[RSTR[name]] = name
    for name, df in defs["rnum"].items():
        base = int if df["base"] == "int" else float
        RNUM[name] = restricted_number_type("V_" + name, base, [(op, base(n) if d == 1 else n / d) for op, n, d in df["rs"]], join=df["join"])
        RNUM_INV[RNUM[name]] = name


# ---------------------------------------------------------------- gamma: abstract -> real
def _nocache():
    for f in typing._cleanups:  # List[Union[str, int]] must not come back as a cached List[Union[int, str]]
        f()


def gamma_type(t):
    k, a = t["k"], t["v"]
    if k in LEAF:
        return LEAF[k]
    if k == "literal":
        _nocache()
        return Literal[tuple(gamma_val(m) for m in a)]
    if k == "enum":
        return ENUMS[a[0]["v"]]
    if k == "path":
        return Path_fr
    if k == "rstr":
        return RSTR[a[0]["v"]]
    if k == "rnum":
        return RNUM[a[0]["v"]]
    if k == "reg":
        return REG[a[0]["v"]]
    sub = [gamma_type(s) for s in a]
    _nocache()
    if k == "list":
        return List[sub[0]] if sub else list
    if k == "set":
        return Set[sub[0]]
    if k == "tupleE":
        return Tuple[sub[0], ...]
    if k == "tuple":
        return Tuple[tuple(sub)]
    if k == "dict":
        return Dict[sub[0], sub[1]] if sub else dict
    if k == "union":
        return Union[tuple(sub)]
    raise ValueError(k)


def alpha_type(tp):
    """real typing object -> type term (used to check that typing did not reorder / merge anything)."""
    if tp in LEAF_INV:
        return {"k": LEAF_INV[tp], "v": []}
    if tp is Path_fr:
        return {"k": "path", "v": []}
    for kind, inv in (("rstr", RSTR_INV), ("rnum", RNUM_INV), ("reg", REG_INV)):
        if tp in inv:
            return {"k": kind, "v": [{"k": "name", "v": inv[tp]}]}
    if tp is list:
        return {"k": "list", "v": []}
    if tp is dict:
        return {"k": "dict", "v": []}
    if isinstance(tp, type) and issubclass(tp, Enum):
        return {"k": "enum", "v": [{"k": "cls", "v": tp.__name__}]}
    origin, args = typing.get_origin(tp), typing.get_args(tp)
    if origin is Literal:
        return {"k": "literal", "v": [alpha_val(m) for m in args]}
    if origin is Union:
        return {"k": "union", "v": [alpha_type(x) for x in args]}
    if origin is list:
        return {"k": "list", "v": [alpha_type(args[0])]}
    if origin is set:
        return {"k": "set", "v": [alpha_type(args[0])]}
    if origin is dict:
        return {"k": "dict", "v": [alpha_type(args[0]), alpha_type(args[1])]}
    if origin is tuple:
        if len(args) == 2 and args[1] is Ellipsis:
            return {"k": "tupleE", "v": [alpha_type(args[0])]}
        return {"k": "tuple", "v": [alpha_type(x) for x in args]}
    raise ValueError(f"not a type of the grammar: {tp!r}")


def gamma_val(x):
    k, v = x["k"], x["v"]
    if k == "none":
        return None
    if k in ("bool", "int", "str"):
        return v
    if k == "float":
        return v[0] / v[1]
    if k == "enum":
        return ENUMS[v[0]][v[1]]
    if k == "sub":  # an instance of a subclass of int / str: SUB_CLASSES[name](base value)
        return SUB_CLASSES[v[0]](v[1]["v"])
    if k == "path":
        return Path_fr(v)
    if k == "reg":
        return reg_value(v[0], v[1])
    if k in ("list", "bag"):
        return [gamma_val(e) for e in v]
    if k == "tuple":
        return tuple(gamma_val(e) for e in v)
    if k == "set":
        return {gamma_val(e) for e in v}
    if k == "dict":
        return {gamma_val(p[0]): gamma_val(p[1]) for p in v}
    raise ValueError(f"cannot build a value of kind {k}")


class NotAbstractable(Exception):
    pass


def _frac(text):
    n, d = text.split("/")
    return Fraction(int(n), int(d))


def reg_value(name, code):
    """the value of a registered type that a code of RegDefs names"""
    if name == "timedelta":
        return timedelta(microseconds=int(code))
    if name == "range":
        return range(*(int(c) for c in code.split(",")))
    if name == "decimal":
        f = _frac(code)
        return Decimal(f.numerator) / Decimal(f.denominator)
    if name == "complex":
        re_, im = (_frac(c) for c in code.split(","))
        return complex(float(re_), float(im))
    if name == "uuid":
        return UUID(code)
    if name == "bytes":
        return bytes.fromhex(code)
    raise ValueError(name)


def reg_code(v):
    """-> (type name, code) of a value of a registered type, or None"""
    if isinstance(v, timedelta):
        return "timedelta", str(v // timedelta(microseconds=1))
    if isinstance(v, range):
        return "range", f"{v.start},{v.stop},{v.step}"
    if isinstance(v, Decimal):
        if not v.is_finite():
            raise NotAbstractable(repr(v))
        f = Fraction(v)
        return "decimal", f"{f.numerator}/{f.denominator}"
    if isinstance(v, complex):
        if v.real != v.real or v.imag != v.imag or abs(v.real) == float("inf") or abs(v.imag) == float("inf"):
            raise NotAbstractable(repr(v))
        a, b = Fraction(v.real), Fraction(v.imag)
        return "complex", f"{a.numerator}/{a.denominator},{b.numerator}/{b.denominator}"
    if isinstance(v, UUID):
        return "uuid", str(v)
    if isinstance(v, (bytes, bytearray)):
        return "bytes", bytes(v).hex()
    return None


def alpha_val(v):
    """real value -> tagged value (members of sets sorted, items of dicts in insertion order; compare through norm())."""
    if v is None:
        return {"k": "none", "v": 0}
    if isinstance(v, bool):
        return {"k": "bool", "v": v}
    if type(v) in SUB_INV:  # an instance of one of the subclasses of int / str of the model: the class and the plain value it equals
        plain = v.value if isinstance(v, Enum) else (int(v) if isinstance(v, int) else str.__str__(v))
        return {"k": "sub", "v": [SUB_INV[type(v)], alpha_val(plain)]}
    if isinstance(v, Enum):
        if type(v) not in (E, F):
            raise NotAbstractable(repr(v))
        return {"k": "enum", "v": [type(v).__name__, v.name]}
    if isinstance(v, int):
        if abs(v) >= 2**31:
            raise NotAbstractable(repr(v))
        return {"k": "int", "v": int(v)}
    if isinstance(v, float):
        if v != v or v in (float("inf"), float("-inf")):
            raise NotAbstractable(repr(v))
        fr = Fraction(v)
        if abs(fr.numerator) >= 2**31 or fr.denominator >= 2**31:
            raise NotAbstractable(repr(v))
        return {"k": "float", "v": [fr.numerator, fr.denominator]}
    if isinstance(v, JPath):
        return {"k": "path", "v": str(getattr(v, "relative", v))}
    rc = reg_code(v)
    if rc is not None:
        return {"k": "reg", "v": [rc[0], rc[1]]}
    if isinstance(v, str):
        return {"k": "str", "v": str(v)}
    if isinstance(v, list):
        return {"k": "list", "v": [alpha_val(e) for e in v]}
    if isinstance(v, tuple):
        return {"k": "tuple", "v": [alpha_val(e) for e in v]}
    if isinstance(v, (set, frozenset)):
        return {"k": "set", "v": sorted((alpha_val(e) for e in v), key=canon)}
    if isinstance(v, dict):
        return {"k": "dict", "v": [[alpha_val(a), alpha_val(b)] for a, b in v.items()]}  # insertion order (in-place conversion depends on it)
    if isinstance(v, BaseException):
        return {"k": "exc", "v": 0}
    raise NotAbstractable(f"{type(v).__name__}: {v!r}"[:80])


def norm(x):
    """canonical form of a tagged value that came from TLC (sets / dicts in arbitrary order)."""
    k, v = x["k"], x["v"]
    if k in ("list", "tuple", "bag"):
        return {"k": k, "v": [norm(e) for e in v]}
    if k == "set":
        return {"k": k, "v": sorted((norm(e) for e in v), key=canon)}
    if k == "dict":
        return {"k": k, "v": sorted(([norm(p[0]), norm(p[1])] for p in v), key=canon)}
    return x


def canon(x) -> str:
    return json.dumps(x, sort_keys=True)


def type_str(t) -> str:
    k, a = t["k"], t["v"]
    if k in LEAF:
        return {"none": "None", "any": "Any"}.get(k, k)
    if k == "path":
        return "Path_fr"
    if k == "class":
        return a[0]["v"]
    if k == "rstr":
        return f"restricted_string_type('V_{a[0]['v']}', {TYPEDEFS['rstr'][a[0]['v']]['pat']!r})" if TYPEDEFS else "rstr:" + a[0]["v"]
    if k == "rnum":
        df = TYPEDEFS["rnum"][a[0]["v"]] if TYPEDEFS else None
        return (f"restricted_number_type('V_{a[0]['v']}', {df['base']}, {[(op, n if d == 1 else n / d) for op, n, d in df['rs']]}, join={df['join']!r})" if df else "rnum:" + a[0]["v"])
    if k == "reg":
        return {"decimal": "Decimal", "uuid": "UUID"}.get(a[0]["v"], a[0]["v"])
    if k == "literal":
        return "Literal[" + ",".join(repr(gamma_val(m)) for m in a) + "]"
    if k == "enum":
        return a[0]["v"]
    names = {"list": "List", "set": "Set", "tupleE": "Tuple", "tuple": "Tuple", "dict": "Dict", "union": "Union"}
    if not a:
        return k
    inner = ",".join(type_str(s) for s in a) + (",..." if k == "tupleE" else "")
    return f"{names[k]}[{inner}]"


def perm_class(t) -> str:
    """the type with the members of every Union sorted: equal for all permutations."""
    k, a = t["k"], t["v"]
    if k in LEAF or k in ATOMS:
        return canon(t)
    subs = [perm_class(s) for s in a]
    if k == "union":
        subs.sort()
    return k + "(" + ";".join(subs) + ")"


# ---------------------------------------------------------------- the independent validator (isinstance walk)
def conforms_py(v, tp) -> bool:
    """does the real value conform to the real type hint?  Written against typing only (no alpha, no spec)."""
    if tp is Any:
        return True
    if tp is type(None):
        return v is None
    if tp in (int, float, str):  # an instance of a restricted sub-class (left behind by another Union member) still is one
        if type(v) in SUB_INV:  # isinstance is what the property states (bool is the documented exception)
            return isinstance(v, tp)
        return isinstance(v, tp) and not isinstance(v, (bool, Enum)) and (type(v) is tp or type(v) in RSTR_INV or type(v) in RNUM_INV)
    if tp is bool:
        return type(v) is tp
    if tp is list or tp is dict:
        return type(v) is tp
    if tp is Path_fr:
        return isinstance(v, Path_fr)
    if tp in REG_INV:
        return type(v) is tp
    if tp in RSTR_INV:  # an instance of the restricted class, or a plain str that the pattern matches (Python's re, not jsonargparse)
        return type(v) is tp or (type(v) is str and re.match(TYPEDEFS["rstr"][RSTR_INV[tp]]["pat"], v) is not None)
    if tp in RNUM_INV:  # an instance of the restricted class, or a plain number of the base type that meets the restrictions
        df = TYPEDEFS["rnum"][RNUM_INV[tp]]
        if type(v) is tp:
            return True
        if type(v) is not (int if df["base"] == "int" else float):
            return False
        ops = {">": lambda a, b: a > b, ">=": lambda a, b: a >= b, "<": lambda a, b: a < b, "<=": lambda a, b: a <= b, "==": lambda a, b: a == b, "!=": lambda a, b: a != b}
        hold = [ops[op](v, n / d) for op, n, d in df["rs"]]
        return all(hold) if df["join"] == "and" else any(hold)
    if isinstance(tp, type) and issubclass(tp, Enum):
        return isinstance(v, tp)
    origin, args = typing.get_origin(tp), typing.get_args(tp)
    if origin is Literal:
        return any((type(v) is type(m) or ((type(v) in RSTR_INV or type(v) in RNUM_INV) and type(m) is not bool and isinstance(v, type(m)))) and v == m for m in args)
    if origin is Union:
        return any(conforms_py(v, a) for a in args)
    if origin is list:
        return type(v) is list and all(conforms_py(e, args[0]) for e in v)
    if origin is set:
        return type(v) is set and all(conforms_py(e, args[0]) for e in v)
    if origin is tuple:
        if type(v) is not tuple:
            return False
        if len(args) == 2 and args[1] is Ellipsis:
            return all(conforms_py(e, args[0]) for e in v)
        return len(v) == len(args) and all(conforms_py(e, a) for e, a in zip(v, args))
    if origin is dict:
        return type(v) is dict and all(conforms_py(a, args[0]) and conforms_py(b, args[1]) for a, b in v.items())
    raise ValueError(tp)


# ---------------------------------------------------------------- executing cases on the real code
CLASH_KEYS = ("items", "keys", "values", "get", "pop", "update", "clone")  # arguments named like methods of Namespace (repaired by /repo 737ad47)


def clash_key(t) -> str:
    """the name under which the type is declared a second time: fixed per type, every name is used"""
    return CLASH_KEYS[zlib.crc32(canon(t).encode()) % len(CLASH_KEYS)]


def make_parser(tp, d=None, enable_path=False, key=KEY, **parser_kw):
    """one key of the given type; d: the default as a tagged value (None / none: no default)"""
    p = ArgumentParser(exit_on_error=False, **parser_kw)
    kw = {"enable_path": True} if enable_path else {}
    if d is not None and d["k"] != "none":
        kw["default"] = gamma_val(d)
    p.add_argument("--" + key, type=tp, **kw)
    return p


def run_one(parser, tp, x, chan, key=KEY):
    """one parse of one key; returns {"ok", "v", "exc", "pyok"}"""
    try:
        if chan == "obj":
            cfg = parser.parse_object({key: gamma_val(x)})
        else:
            cfg = parser.parse_args([f"--{key}={x['v']}"])
    except ArgumentError:
        return {"ok": False, "v": {"k": "none", "v": 0}, "exc": "", "pyok": True}
    except Exception as ex:  # not an ArgumentError: C03's business; for C02 it is a rejection
        return {"ok": False, "v": {"k": "none", "v": 0}, "exc": type(ex).__name__, "pyok": True}
    val = cfg[key]
    try:
        av = alpha_val(val)
    except NotAbstractable as ex:
        av = {"k": "other", "v": str(ex)}
    return {"ok": True, "v": av, "exc": "", "pyok": val is None or conforms_py(val, tp)}


def channels(x):
    return ["obj", "arg"] if x["k"] == "str" else ["obj"]


def _work(job):
    """pool worker: one type term, many inputs."""
    t, d, xs = job[:3]
    clash = len(job) > 3 and job[3]
    try:
        tp = gamma_type(t)
        back = alpha_type(tp)
    except Exception as ex:
        return {"t": t, "error": f"{type(ex).__name__}: {ex}"}
    if canon(back) != canon(t):
        return {"t": t, "error": "typing changed the hint: " + canon(back)}
    try:
        parser = make_parser(tp, d)
    except Exception as ex:
        return {"t": t, "error": f"add_argument: {type(ex).__name__}: {ex}"}
    out = []
    for x in xs:
        out.append([run_one(parser, tp, x, ch) for ch in channels(x)])
    res = {"t": t, "out": out}
    if clash:  # the same values as objects for an argument named like a Namespace method
        cparser = make_parser(tp, d, key=clash_key(t))
        res["clash"] = [run_one(cparser, tp, x, "obj", key=clash_key(t)) for x in xs]
    return res


def run_link(tp, x):
    """the typed object x (a PositiveInt) reaches the key through a parse-link: --src is a PositiveInt option, --k has the declared
    type, link_arguments('src', 'k'); the final validation pass of parse_args sees the object"""
    try:
        parser = ArgumentParser(exit_on_error=False)
        parser.add_argument("--src", type=PositiveInt)
        parser.add_argument("--" + KEY, type=tp)
        parser.link_arguments("src", KEY)
        cfg = parser.parse_args([f"--src={x['v'][1]['v']}"])
    except ArgumentError:
        return {"ok": False, "v": {"k": "none", "v": 0}, "exc": "", "pyok": True}
    except Exception as ex:
        return {"ok": False, "v": {"k": "none", "v": 0}, "exc": type(ex).__name__, "pyok": True}
    val = cfg[KEY]
    if type(cfg["src"]) is not PositiveInt:
        return {"ok": True, "v": {"k": "other", "v": "the source is not a PositiveInt object"}, "exc": "", "pyok": True}
    try:
        av = alpha_val(val)
    except NotAbstractable as ex:
        av = {"k": "other", "v": str(ex)}
    return {"ok": True, "v": av, "exc": "", "pyok": val is None or conforms_py(val, tp)}


def _work_obj(job):
    """pool worker for the cases of MC_TypesObj: one type term, many inputs; per input the channels obj (+ arg for a text) and,
    where TLC predicted it, link"""
    t, d, xs, links = job
    try:
        tp = gamma_type(t)
        back = alpha_type(tp)
    except Exception as ex:
        return {"t": t, "error": f"{type(ex).__name__}: {ex}"}
    if canon(back) != canon(t):
        return {"t": t, "error": "typing changed the hint: " + canon(back)}
    try:
        parser = make_parser(tp, d)
    except Exception as ex:
        return {"t": t, "error": f"add_argument: {type(ex).__name__}: {ex}"}
    out = []
    for x, lk in zip(xs, links):
        out.append([run_one(parser, tp, x, ch) for ch in channels(x)] + ([run_link(tp, x)] if lk else []))
    return {"t": t, "out": out}


def _enter(workdir):
    os.chdir(workdir)  # forked worker: the cwd of the harness itself is not touched


def run_jobs(jobs, procs=16, work=None):
    """jobs run in forked workers whose working directory is a scratch directory that holds the file of ExistingFiles"""
    if not jobs:
        return []
    work = work or _work
    tmp = common.scratch("types-cwd")
    try:
        (tmp / EXISTING_FILE).write_text("content\n")
        ctx = mp.get_context("fork")
        with ctx.Pool(min(procs, len(jobs)), initializer=_enter, initargs=(str(tmp),)) as pool:
            return pool.map(work, jobs, chunksize=max(1, len(jobs) // (procs * 8)))
    finally:
        common.rm(tmp)


# ---------------------------------------------------------------- random type hints and candidates (TRACE)
TEXTS = None  # filled from the spec's vocabulary (printed by TLC) in main()


def rand_type(rnd, depth, top=True):
    leaves = ["str", "int", "float", "bool", "any", "enumE", "lit1", "lit2", "sku", "out01", "gthf", "td", "rng"] + ([] if top else ["none", "enumF", "lit3"])
    if depth <= 0 or rnd.random() < 0.25:
        c = rnd.choice(leaves)
        return {"enumE": {"k": "enum", "v": [{"k": "cls", "v": "E"}]}, "enumF": {"k": "enum", "v": [{"k": "cls", "v": "F"}]},
                "lit1": {"k": "literal", "v": [{"k": "str", "v": "a"}, {"k": "int", "v": 1}, {"k": "none", "v": 0}]},
                "lit2": {"k": "literal", "v": [{"k": "str", "v": "a"}, {"k": "str", "v": "b"}]},
                "lit3": {"k": "literal", "v": [{"k": "bool", "v": True}, {"k": "int", "v": 2}]},
                "sku": {"k": "rstr", "v": [{"k": "name", "v": "sku_u"}]}, "out01": {"k": "rnum", "v": [{"k": "name", "v": "out01i"}]},
                "gthf": {"k": "rnum", "v": [{"k": "name", "v": "gthf"}]}, "td": {"k": "reg", "v": [{"k": "name", "v": "timedelta"}]},
                "rng": {"k": "reg", "v": [{"k": "name", "v": "range"}]}}.get(c, {"k": c, "v": []})
    c = rnd.choice(["list", "list", "set", "tupleE", "tuple", "dict", "union", "union", "union"])
    if c in ("list", "tupleE"):
        return {"k": c, "v": [rand_type(rnd, depth - 1, False)]}
    if c == "set":
        return {"k": c, "v": [rand_type(rnd, min(depth - 1, 1), False)]}
    if c == "tuple":
        return {"k": c, "v": [rand_type(rnd, depth - 1, False) for _ in range(rnd.randint(1, 3))]}
    if c == "dict":
        return {"k": c, "v": [{"k": rnd.choice(["str", "str", "int"]), "v": []}, rand_type(rnd, depth - 1, False)]}
    members, seen = [], set()
    for _ in range(rnd.randint(2, 3)):
        m = rand_type(rnd, depth - 1, False)
        if m["k"] == "union" or m["k"] == "any" or perm_class(m) in seen:
            continue
        seen.add(perm_class(m))
        members.append(m)
    if len(members) < 2:
        return {"k": "list", "v": [rand_type(rnd, depth - 1, False)]}
    return {"k": "union", "v": members}


def rand_word(rnd):
    return "".join(rnd.choice(PLAIN_ALPHABET) for _ in range(rnd.randint(1, 4)))


def good_value(rnd, t, texty=0.25):
    """a value meant to be acceptable for t (may use the string spelling of a scalar)."""
    k, a = t["k"], t["v"]
    s = rnd.random() < texty
    if k == "str":
        return {"k": "str", "v": rnd.choice([rand_word(rnd), "abc", "1", "null", "A", "true", "[1]", ""])}
    if k == "int":
        return {"k": "str", "v": rnd.choice(["1", "2", "0", "-1", " 1 ", "0x10", "1_000"])} if s else {"k": "int", "v": rnd.randint(-3, 40)}
    if k == "float":
        return {"k": "str", "v": rnd.choice(["1.5", "1.0", "1e3", "-0.5", "1"])} if s else rnd.choice(
            # (floats whose str() the vocabulary knows: a str-serialising Union member may write them as texts that are read again)
            [{"k": "float", "v": rnd.choice([[3, 2], [1, 2], [-1, 2]])}, {"k": "float", "v": [rnd.choice([0, 1, 2, 16, 1000]), 1]}, {"k": "int", "v": rnd.randint(0, 5)}])
    if k == "bool":
        return {"k": "str", "v": rnd.choice(["true", "false", "yes", "True", "off"])} if s else {"k": "bool", "v": rnd.random() < 0.5}
    if k == "none":
        return {"k": "str", "v": rnd.choice(["null", "~", "Null"])} if s else {"k": "none", "v": 0}
    if k == "any":
        return rnd.choice([{"k": "int", "v": 3}, {"k": "str", "v": "1"}, {"k": "str", "v": rand_word(rnd)}, {"k": "list", "v": [{"k": "int", "v": 1}]},
                           {"k": "enum", "v": ["E", "A"]}, {"k": "str", "v": "[1, a]"}, {"k": "dict", "v": [[{"k": "str", "v": "a"}, {"k": "int", "v": 1}]]}])
    if k == "rstr":
        return {"k": "str", "v": rnd.choice(sorted(TYPEDEFS["rstr"][a[0]["v"]]["m"]) + ["xABC-1234", "sku ABC-1234"])}
    if k == "rnum":
        return rnd.choice([{"k": "int", "v": rnd.choice([-1, 0, 1, 2])}, {"k": "str", "v": rnd.choice(["2", "-1", "1.5", "1.0"])}, {"k": "float", "v": rnd.choice([[3, 2], [2, 1], [1, 2]])}])
    if k == "reg":
        df = TYPEDEFS["reg"][a[0]["v"]]
        return {"k": "str", "v": rnd.choice(df["txt"])[0]} if rnd.random() < 0.6 else {"k": "reg", "v": [a[0]["v"], rnd.choice(df["ser"])[0]]}
    if k == "enum":
        name = rnd.choice(sorted(ENUMS[a[0]["v"]].__members__))
        return {"k": "str", "v": name} if rnd.random() < 0.6 else {"k": "enum", "v": [a[0]["v"], name]}
    if k == "literal":
        m = rnd.choice(a)
        if s and m["k"] != "str":
            return {"k": "str", "v": {"none": "null", "bool": "true" if m["v"] else "false", "int": str(m["v"])}[m["k"]]}
        return m
    if k == "union":
        return good_value(rnd, rnd.choice(a), texty)
    if k in ("list", "tupleE", "set"):
        n = rnd.randint(0, 3)
        elems = [good_value(rnd, a[0], texty) for _ in range(n)] if a else [{"k": "int", "v": 1}] * n
        if k == "set":
            elems = [e for e in elems if e["k"] not in ("list", "dict", "set")]
        return {"k": rnd.choice(["list", "list", "list", "tuple"]), "v": elems}
    if k == "tuple":
        return {"k": rnd.choice(["list", "list", "tuple"]), "v": [good_value(rnd, s_, texty) for s_ in a]}
    if k == "dict":
        if not a:
            return {"k": "dict", "v": [[{"k": "str", "v": "a"}, {"k": "int", "v": 1}]]}
        keys = rnd.sample(["a", "b", "c"] if a[0]["k"] == "str" else ["1", "2", "0"], rnd.randint(0, 2))
        pairs = []
        for key in keys:
            kv = {"k": "str", "v": key} if (a[0]["k"] == "str" or rnd.random() < 0.5) else {"k": "int", "v": int(key)}
            pairs.append([kv, good_value(rnd, a[1], texty)])
        return {"k": "dict", "v": pairs}
    raise ValueError(k)


WRONG_SCALARS = [{"k": "none", "v": 0}, {"k": "bool", "v": True}, {"k": "int", "v": 1}, {"k": "float", "v": [3, 2]}, {"k": "float", "v": [1, 1]},
                 {"k": "str", "v": "abc"}, {"k": "str", "v": "1"}, {"k": "str", "v": "true"}, {"k": "str", "v": "null"}, {"k": "str", "v": "[1]"},
                 {"k": "str", "v": "{}"}, {"k": "str", "v": "A"}, {"k": "enum", "v": ["E", "A"]}, {"k": "enum", "v": ["F", "C"]},
                 {"k": "list", "v": []}, {"k": "dict", "v": []}, {"k": "list", "v": [{"k": "int", "v": 1}]}]


def mutate(rnd, x, t):
    """make x wrong at one position: wrong scalar kind, arity +-1, wrong container."""
    k = x["k"]
    if k in ("list", "tuple", "set") and x["v"] and rnd.random() < 0.75:
        v = list(x["v"])
        r = rnd.random()
        if r < 0.15:
            v.pop(rnd.randrange(len(v)))
        elif r < 0.3:
            v.append(rnd.choice(WRONG_SCALARS[:10]))
        else:
            n = rnd.randrange(len(v))
            v[n] = mutate(rnd, v[n], t)
        return {"k": k, "v": v}
    if k == "dict" and x["v"] and rnd.random() < 0.75:
        v = [list(p) for p in x["v"]]
        n = rnd.randrange(len(v))
        if rnd.random() < 0.3:
            v[n][0] = rnd.choice([{"k": "int", "v": 7}, {"k": "bool", "v": True}, {"k": "str", "v": "0x10"}, {"k": "str", "v": "q"}])
        else:
            v[n][1] = mutate(rnd, v[n][1], t)
        keys = [canon(p[0]) for p in v]
        return {"k": "dict", "v": v} if len(set(keys)) == len(keys) else x
    return rnd.choice(WRONG_SCALARS)


def has_set_input(x) -> bool:
    if x["k"] == "set":
        return True
    if x["k"] in ("list", "tuple"):
        return any(has_set_input(e) for e in x["v"])
    if x["k"] == "dict":
        return any(has_set_input(p[1]) for p in x["v"])
    return False


EQ_SCALARS = [{"k": "int", "v": 0}, {"k": "int", "v": 1}, {"k": "int", "v": 2}, {"k": "bool", "v": True}, {"k": "bool", "v": False},
              {"k": "float", "v": [0, 1]}, {"k": "float", "v": [1, 1]}, {"k": "float", "v": [2, 1]}]


def rand_default(rnd, t):
    """a scalar default for a scalar-ish hint (canonical or valid but non-canonical), or none"""
    kinds = kinds_in(t)
    if depth_of(t) > 1 or kinds & {"list", "set", "tuple", "tupleE", "dict", "any", "path", "rstr", "rnum", "reg"} or rnd.random() < 0.5:
        return NONE
    for _ in range(6):
        d = good_value(rnd, t, texty=0.0)
        if d["k"] in ("bool", "int", "float") or (d["k"] == "str" and t["k"] in ("str", "enum", "literal", "union") and d["v"] in ("abc", "a", "b", "A", "B")):
            return d
    return NONE


def random_cases(rnd, ntypes, per_type, maxdepth=4):
    """jobs (type term, default, inputs); every job is followed by one permutation of its Unions with the same default and inputs"""
    jobs = []
    seen = set()
    while len(jobs) < ntypes:
        t = rand_type(rnd, rnd.randint(1, maxdepth))
        try:
            if canon(alpha_type(gamma_type(t))) != canon(t):
                continue  # typing merged / reordered something (e.g. Union[List[A], List[B]] with A == B)
        except Exception:
            continue
        if canon(t) in seen:
            continue
        seen.add(canon(t))
        d = rand_default(rnd, t)
        xs, keys = [], set()
        for _ in range(per_type * 3):
            x = good_value(rnd, t)
            if rnd.random() < 0.5:
                x = mutate(rnd, x, t)
            if canon(x) not in keys and not has_set_input(x):
                keys.add(canon(x))
                xs.append(x)
            if len(xs) >= per_type:
                break
        extra = [{"k": "str", "v": s_} for s_ in rnd.sample(TEXTS, min(4, len(TEXTS)))] + (EQ_SCALARS if d["k"] != "none" else [])
        for x in extra:
            if canon(x) not in keys:
                keys.add(canon(x))
                xs.append(x)
        jobs.append((t, d, xs))
        # ... and one permutation of its Union members, with the same inputs
        p = permute(rnd, t)
        if canon(p) != canon(t) and canon(p) not in seen:
            try:
                if canon(alpha_type(gamma_type(p))) == canon(p):
                    seen.add(canon(p))
                    jobs.append((p, d, xs))
            except Exception:
                pass
    return jobs


def permute(rnd, t):
    k, a = t["k"], t["v"]
    if k in LEAF or k in ATOMS:
        return t
    subs = [permute(rnd, s) for s in a]
    if k == "union":
        rnd.shuffle(subs)
    return {"k": k, "v": subs}


def depth_of(t) -> int:
    if t["k"] in LEAF or t["k"] in ATOMS or not t["v"]:
        return 0
    return 1 + max(depth_of(s) for s in t["v"])


# ---------------------------------------------------------------- verdicts
DEV_KEYS = {"rawLink": "link-target-raw", "origNested": "union-orig-nested", "inPlace": "union-in-place", "validateLeak": "validate-leaks-into-result", "setListing": "set-listing-order", "litEq": "literal-eq",
            "dictKey": "dict-key-unchecked", "serCollision": "set-written-with-duplicates"}


def shape(t, x) -> str:
    return f"{type_str(t)}:{canon(x)[:60]}"


def classify_replay(rep, case, chan, real, stats):
    """compare one real execution with what TLC printed for the case."""
    t, x = case["t"], case["x"]
    res = [canon(norm(r)) for r in case["res"]]
    av = canon(norm(case["av"]))
    rv = canon(norm(real["v"]))
    ref_ok = real["ok"] == case["acc"] and (not real["ok"] or rv in res)
    alg_ok = real["ok"] == case["aok"] and (not real["ok"] or rv == av)
    info = {"type": type_str(t), "t": t, "d": case.get("d", NONE), "x": x, "channel": chan, "python": python_repro(t, x, chan, case.get("d")),
            "ref_accepts": case["acc"], "ref_results": case["res"], "alg": {"ok": case["aok"], "v": case["av"], "dev": case["dev"]},
            "observed": real}
    if real["ok"] and real["v"]["k"] == "other":
        rep.violation(f"unknown-result:{shape(t, x)}", "the result is not a value of the model", info)
        return
    if real["exc"]:  # the property does not name the exception class (C03 does); the Alg layer predicts an ArgumentError
        rep.add_drift(f"rejected with {real['exc']} instead of ArgumentError", info)
    if ref_ok and real["ok"] and not real["pyok"]:
        rep.violation(f"validator:{shape(t, x)}", "the isinstance walk rejects a result that the specification calls conforming", info)
        return
    if not ref_ok and real["ok"] and real["pyok"] and rv not in res and case["acc"]:
        stats["ref_result_unlisted"] = stats.get("ref_result_unlisted", 0) + 1
    if ref_ok:
        if not alg_ok:
            rep.add_drift("real code agrees with Ref but not with the Alg transcription", info)
        return
    devs = sorted(case["dev"])
    if alg_ok and devs:
        report_deviation(rep, devs, t, x, chan, real["ok"], case["acc"], info)
    else:
        what = "accepts" if real["ok"] else "rejects"
        rep.violation(f"{'accept' if real['ok'] else 'reject'}/other:{shape(t, x)}:{chan}",
                      f"{type_str(t)} with input {gamma_repr(x)} ({chan}): real code {what}"
                      + (f" with {real['v']}" if real["ok"] else "") + f"; Ref accepts={case['acc']} results={case['res']}", info)


def report_deviation(rep, devs, t, x, chan, real_ok, ref_acc, info):
    """the real code disagrees with Ref exactly as the Alg layer's named deviation(s) predict: one key per name"""
    # setListing is not a defect by itself (Python does not fix the order in which a set is listed); firstMatch is a marker, not a deviation from Ref
    real_devs = [d for d in devs if d not in ("setListing", "firstMatch")]
    if not real_devs and "setListing" in devs:
        rep.extra["set_order_dependent_disagreements"] = rep.extra.get("set_order_dependent_disagreements", 0) + 1
        return
    if not real_devs:
        rep.violation(f"{'accept' if real_ok else 'reject'}/other:{shape(t, x)}:{chan}", f"{type_str(t)} with input {gamma_repr(x)} ({chan}): real code "
                      f"{'accepts' if real_ok else 'rejects'} against Ref and no named deviation explains it", info)
        return
    for d in real_devs:
        rep.violation(f"{DEV_KEYS.get(d, d)}/as-alg:{shape(t, x)}",
                      f"{type_str(t)} with input {gamma_repr(x)} ({chan}): real code {'accepts' if real_ok else 'rejects'} where the property says "
                      f"{'accept' if ref_acc else 'reject / another value'} (named deviation {devs} of spec/Types.tla)", info)


def report_unbuildable(rep, t, error):
    """add_argument itself failed for a type hint of the grammar"""
    if not error.startswith("add_argument:"):
        machinery_failure(rep.pid, f"type term {canon(t)} cannot be expressed with typing: {error}")
    cls = error.split(":")[1].strip()
    rep.violation(f"add-argument:{cls}:{type_str(t)}", f"the type hint {type_str(t)} cannot be declared: {error}",
                  {"t": t, "error": error, "python": f"ArgumentParser().add_argument('--k', type={type_str(t)})"})


def has_sub(x) -> bool:
    if x["k"] == "sub":
        return True
    if x["k"] in ("list", "tuple", "set", "bag"):
        return any(has_sub(e) for e in x["v"])
    if x["k"] == "dict":
        return any(has_sub(p[1]) for p in x["v"])
    return False


def show_obj(x) -> str:
    """Python text of a value that holds instances of the subclasses of the model (their repr does not name the class)"""
    k, v = x["k"], x["v"]
    if k == "sub":
        return {"IntEnum": "IE", "StrEnum": "SE"}.get(v[0], v[0]) + f"({v[1]['v']!r})"
    if k in ("list", "bag"):
        return "[" + ", ".join(show_obj(e) for e in v) + "]"
    if k == "tuple":
        return "(" + ", ".join(show_obj(e) for e in v) + ("," if len(v) == 1 else "") + ")"
    if k == "set":
        return "{" + ", ".join(show_obj(e) for e in v) + "}" if v else "set()"
    if k == "dict":
        return "{" + ", ".join(show_obj(a) + ": " + show_obj(b) for a, b in v) + "}"
    return gamma_repr(x)


def gamma_repr(x) -> str:
    if has_sub(x):
        return show_obj(x)
    try:
        if x["k"] == "path":
            return f"Path_fr({x['v']!r})"
        if x["k"] == "absent":
            return "<key not given>"
        return repr(gamma_val(x))
    except Exception:
        return canon(x)


def python_repro(t, x, chan, d=None) -> str:
    if chan == "link":
        return (f"p = ArgumentParser(exit_on_error=False); p.add_argument('--src', type=PositiveInt); p.add_argument('--k', type={type_str(t)}); "
                f"p.link_arguments('src', 'k'); p.parse_args(['--src={x['v'][1]['v']}']).k")
    call = f"p.parse_object({{'k': {gamma_repr(x)}}})" if chan == "obj" else f"p.parse_args(['--k=' + {x['v']!r}])"
    dflt = f", default={gamma_repr(d)}" if d is not None and d["k"] != "none" else ""
    return f"p = ArgumentParser(exit_on_error=False); p.add_argument('--k', type={type_str(t)}{dflt}); {call}"


def kinds_in(t, acc=None):
    acc = set() if acc is None else acc
    acc.add(t["k"])
    if t["k"] not in ATOMS:
        for sub in t["v"]:
            kinds_in(sub, acc)
    return acc


def model_profile(cases) -> dict:
    """which branches of the specification the printed cases reach (TLC's -coverage cannot instrument the recursive operators)"""
    by_kind, nested, results, devs, inputs = {}, {}, {}, {}, {}
    normalised = fallback = 0
    for c in cases:
        row = by_kind.setdefault(c["t"]["k"], {"cases": 0, "ref_accepts": 0, "alg_accepts": 0, "with_deviation": 0})
        row["cases"] += 1
        row["ref_accepts"] += c["acc"]
        row["alg_accepts"] += c["aok"]
        row["with_deviation"] += bool(set(c["dev"]) - {"firstMatch"})
        inputs[c["x"]["k"]] = inputs.get(c["x"]["k"], 0) + 1
        for d in c["dev"]:
            devs[d] = devs.get(d, 0) + 1
        if c["aok"]:
            for k in kinds_in(c["t"]):
                nested[k] = nested.get(k, 0) + 1
            results[c["av"]["k"]] = results.get(c["av"]["k"], 0) + 1
            normalised += canon(norm(c["av"])) != canon(norm(c["x"]))
            fallback += c["x"]["k"] == "str" and c["av"] == c["x"] and c["t"]["k"] != "str"
    return {"by_top_level_type_kind": by_kind, "type_kinds_inside_accepted_cases": nested, "alg_result_kinds": results, "cases_per_named_deviation": devs,
            "inputs_by_kind": inputs, "accepted_cases_where_result_differs_from_input": normalised, "accepted_texts_kept_as_the_original_string_by_a_non_str_type": fallback}


def typedef_check(rep, defs, texts):
    """every row of the tables of the restricted / registered types on the real thing: Python's re.match, int(), float(), and
    the serializer / deserializer that jsonargparse registers (no parser involved)"""
    n = 0

    def bad(key, what, case):
        rep.violation(f"typedef-row:{key}", what, case)

    probes = sorted(set(texts) | {m for df in defs["rstr"].values() for m in df["m"]})
    for name, df in sorted(defs["rstr"].items()):
        for text in probes:
            n += 1
            if bool(re.match(df["pat"], text)) != (text in df["m"]):
                bad(f"rstr:{name}:{text}", f"re.match({df['pat']!r}, {text!r}) is {bool(re.match(df['pat'], text))}, the table of the specification says {text in df['m']}", {"text": text})
    for tbl, fn in (("pyint", int), ("pyfloat", float)):
        for text in probes:
            n += 1
            try:
                got = Fraction(fn(text))
                got = [got.numerator, got.denominator]
            except ValueError:
                got = None
            want = defs[tbl].get(text)
            want = [want, 1] if isinstance(want, int) else want
            if got != want:
                bad(f"{tbl}:{text}", f"{fn.__name__}({text!r}) gives {got}, the table of the specification says {want}", {"text": text})
    for name, df in sorted(defs["reg"].items()):
        handler = get_registered_type(REG[name])
        for code, ser in df["ser"]:
            n += 1
            try:
                got = canon(alpha_val(handler.serializer(reg_value(name, code))))
            except Exception as ex:
                got = f"{type(ex).__name__}: {ex}"
            if got != canon(norm(ser)):
                bad(f"reg:{name}:ser:{code}", f"the serializer of {name} writes {got} for {reg_value(name, code)!r}, the specification says {canon(ser)}", {"code": code})
        for code, items in defs.get("iter", {}).get(name, []):  # list(value) of the iterable ones
            n += 1
            if list(reg_value(name, code)) != list(items):
                bad(f"reg:{name}:iter:{code}", f"list({reg_value(name, code)!r}) is {list(reg_value(name, code))}, the specification says {items}", {"code": code})
        codes = sorted(code for code, _ in df["ser"])
        for i, a in enumerate(codes):  # two values of the model are two values of Python (range(0) == range(-3, 5, -1) would merge in a set)
            for b in codes[i + 1:]:
                n += 1
                if reg_value(name, a) == reg_value(name, b):
                    bad(f"reg:{name}:same:{a}:{b}", f"the values {a} and {b} of {name} are told apart by the specification but are == in Python", {"codes": [a, b]})
        for rows, conv in ((df["txt"], lambda r: r), (df["num"], gamma_val)):
            for inp, code in rows:
                n += 1
                try:
                    got = reg_code(handler.deserializer(conv(inp)))
                    got = got[1] if got and got[0] == name else repr(got)
                except Exception as ex:
                    got = f"{type(ex).__name__}: {str(ex)[:80]}"
                if got != code:
                    bad(f"reg:{name}:read:{canon(inp)[:40]}", f"the deserializer of {name} reads {conv(inp)!r} as {got}, the specification says {code}", {"input": inp})
        for text in df["bad"]:
            n += 1
            try:
                got = handler.deserializer(text)
                bad(f"reg:{name}:refuse:{text}", f"the deserializer of {name} accepts {text!r} ({got!r}), the specification says it is refused", {"text": text})
            except Exception:
                pass
    return n


def vocabulary_check(rep, texts_tbl):
    """every row of the spec's text table on the real loader (yaml_load of _loaders_dumpers)."""
    from jsonargparse._loaders_dumpers import yaml_load

    n = 0
    for text, meaning in sorted(texts_tbl.items()):
        try:
            got = canon(alpha_val(yaml_load(text))) if text.strip() else canon({"k": "str", "v": text})
        except NotAbstractable as ex:
            got = "other:" + str(ex)
        except Exception:
            got = canon({"k": "fail", "v": 0})
        n += 1
        if got != canon(norm(meaning)):
            rep.violation(f"text-meaning:{text}", f"the text {text!r} is read as {got}, the specification's table says {canon(meaning)}",
                          {"text": text, "spec": meaning, "observed": got})
    return n


def main(argv):
    global TEXTS
    tier = "thorough" if (argv and argv[0] == "thorough") else "quick"
    rep = Report(PID, tier)
    rnd = common.rng(PID)
    rep.assumptions = [
        "texts are opaque to the specification: their meaning is the table YamlTbl of spec/Types.tla (checked row by row against the real loader at the start of a run); every other string the harness produces is a word over the letters 'cdghkmpqwz', which YAML reads as itself",
        "parser_mode yaml, no enable_path, nargs None: one key of the given type per parser, without a default or with a scalar / container default of the instance",
        "input sets have at most 2 members in the model and none in the random traces (the order in which Python lists a set is not specified); dict inputs have no two keys that cast to the same key",
        "alpha maps exceptions objects found in a result to the value 'exc'; floats are exact rationals; ints below 2^31",
        "restricted / registered types (C20), dataclasses, class types, Callable, Type are outside this grammar",
        "the class of the exception that rejects an input is not compared (C03); a non-ArgumentError exception counts as a rejection and is counted in coverage.non_argument_errors",
    ]
    workers = int(os.environ.get("VERIF_TLC_WORKERS", "4" if tier == "quick" else "16"))  # quick: fewer workers cost fewer CPU seconds

    # ---- MC: the design-level check, and the cases to replay
    cfgname = f"MC_Types_{tier}"
    mc = tlc.run("MC_Types", cfgname, workers=workers, timeout=3000, heap="12g")
    rep.add_tlc(cfgname, mc)
    if mc.errors:
        if mc.violated:
            rep.violation("model:" + ",".join(sorted(set(mc.violated))), f"TLC: invariant {sorted(set(mc.violated))} violated in the bounded model",
                          {"tlc_errors": mc.errors[:5], "counterexample": mc.cex[:4000]})
            return rep.finish()
        machinery_failure(PID, "TLC failed on MC_Types:\n" + mc.stdout[-3000:])
    types = [p["type"] for p in mc.printed if isinstance(p, dict) and "type" in p]
    cases = [p for p in mc.printed if isinstance(p, dict) and "acc" in p]
    absent = [p for p in mc.printed if isinstance(p, dict) and "nok" in p]  # the key is not given: replayed by C10
    if not cases or len(types) + len(cases) + len(absent) != mc.distinct:
        machinery_failure(PID, f"TLC printed {len(types)} types + {len(cases)} cases + {len(absent)} absent cases for {mc.distinct} distinct states")
    cases.sort(key=lambda c: (canon(c["t"]), canon(c["d"]), canon(norm(c["x"]))))
    vocab = [p for p in mc.printed if isinstance(p, dict) and "vocabulary" in p]
    if not vocab:
        machinery_failure(PID, "TLC did not print the text vocabulary")
    tdefs = [p for p in mc.printed if isinstance(p, dict) and "typedefs" in p]
    if not tdefs:
        machinery_failure(PID, "TLC did not print the definitions of the restricted / registered types")
    install_typedefs(tdefs[0]["typedefs"])
    tbl = {row[0]: row[1] for row in vocab[0]["vocabulary"]}
    TEXTS = sorted(set(tbl) | FIXED_WORDS)
    n_vocab = vocabulary_check(rep, tbl) + typedef_check(rep, TYPEDEFS, TEXTS)

    # ---- REPLAY: every case on the real code
    by_type = {}
    for c in cases:
        by_type.setdefault((canon(c["t"]), canon(c["d"])), []).append(c)
    groups = sorted(by_type.items())
    jobs = [(cs[0]["t"], cs[0]["d"], [c["x"] for c in cs], "clash" in cs[0]) for _, cs in groups]
    results = run_jobs(jobs)
    stats = {"non_argument_errors": 0, "unbuildable_types": 0}
    n_exec = 0
    verdicts = {}  # (perm class, default, x, channel) -> {type: ok}
    for ((tkey, dkey), cs), r in zip(groups, results):
        if "error" in r:
            stats["unbuildable_types"] += 1
            report_unbuildable(rep, cs[0]["t"], r["error"])
            continue
        for c, outs in zip(cs, r["out"]):
            for ch, real in zip(channels(c["x"]), outs):
                n_exec += 1
                if real["exc"]:
                    stats["non_argument_errors"] += 1
                classify_replay(rep, c, ch, real, stats)
                verdicts.setdefault((perm_class(c["t"]), dkey, canon(norm(c["x"])), ch), {})[tkey] = real["ok"]
                if (c["t"]["k"] not in LEAF or c["d"]["k"] != "none") and c["x"]["k"] != "none":
                    rep.note_nontrivial(tkey + "|" + dkey + "|" + canon(norm(c["x"])))
            if len(rep.samples) < 3 and c["dev"] == [] and c["acc"] and c["t"]["k"] == "union" and c["x"]["k"] in ("list", "str"):
                rep.sample({"type": type_str(c["t"]), "input": gamma_repr(c["x"]), "python": python_repro(c["t"], c["x"], "obj", c["d"]),
                            "ref_accepts": c["acc"], "ref_results": c["res"], "alg_predicts": c["av"], "observed": outs[0]})
        for c, real in zip(cs, r.get("clash", [])):  # the argument is called --items: nothing may depend on its name
            n_exec += 1
            stats["clash_key_executions"] = stats.get("clash_key_executions", 0) + 1
            classify_replay(rep, c, "obj, argument named --" + clash_key(c["t"]), real, stats)
    pgroups = [g for g in verdicts.values() if len(g) > 1]
    stats["permutation_groups_compared"] = len(pgroups)
    stats["permutation_groups_with_different_real_verdicts"] = sum(1 for g in pgroups if len(set(g.values())) > 1)
    stats["model_cases_with_a_default"] = sum(1 for c in cases if c["d"]["k"] != "none")

    # ---- Round 4: typed objects that are instances of subclasses of the declared leaf type (parse_object, parse-link) and
    #      deeper compositions: a second bounded instance (MC_TypesObj), every case replayed like the ones above
    ocfg = f"MC_TypesObj_{tier}"
    omc = tlc.run("MC_TypesObj", ocfg, workers=workers, timeout=3000, heap="12g")
    rep.add_tlc(ocfg, omc)
    if omc.errors:
        if omc.violated:
            rep.violation("model-obj:" + ",".join(sorted(set(omc.violated))), f"TLC: invariant {sorted(set(omc.violated))} violated in the bounded model MC_TypesObj",
                          {"tlc_errors": omc.errors[:5], "counterexample": omc.cex[:4000]})
            return rep.finish()
        machinery_failure(PID, "TLC failed on MC_TypesObj:\n" + omc.stdout[-3000:])
    otypes = [p["type"] for p in omc.printed if isinstance(p, dict) and "type" in p]
    ocases = [p for p in omc.printed if isinstance(p, dict) and "acc" in p]
    if not ocases or len(otypes) + len(ocases) != omc.distinct:
        machinery_failure(PID, f"TLC printed {len(otypes)} types + {len(ocases)} cases for {omc.distinct} distinct states of MC_TypesObj")
    ocases.sort(key=lambda c: (canon(c["t"]), canon(norm(c["x"]))))
    oby = {}
    for c in ocases:
        oby.setdefault(canon(c["t"]), []).append(c)
    ogroups = sorted(oby.items())
    ojobs = [(cs[0]["t"], NONE, [c["x"] for c in cs], ["lok" in c for c in cs]) for _, cs in ogroups]
    ostats = {"cases": len(ocases), "types": len(otypes), "with_typed_object": 0, "typed_object_accepted": 0, "typed_object_conforming_instance": 0,
              "link_executions": 0, "link_accepted": 0, "deep_cases": 0, "executions": 0}
    for (tkey, cs), r in zip(ogroups, run_jobs(ojobs, work=_work_obj)):
        if "error" in r:
            stats["unbuildable_types"] += 1
            report_unbuildable(rep, cs[0]["t"], r["error"])
            continue
        for c, outs in zip(cs, r["out"]):
            chans = channels(c["x"]) + (["link"] if "lok" in c else [])
            sub = has_sub(c["x"])
            ostats["with_typed_object"] += sub
            ostats["typed_object_accepted"] += sub and c["acc"]
            ostats["deep_cases"] += depth_of(c["t"]) >= 3
            for ch, real in zip(chans, outs):
                n_exec += 1
                ostats["executions"] += 1
                if real["exc"]:
                    stats["non_argument_errors"] += 1
                if ch == "link":  # the prediction for a linked value: AlgLink (the value stays the object it is)
                    ostats["link_executions"] += 1
                    ostats["link_accepted"] += real["ok"]
                    classify_replay(rep, {**c, "aok": c["lok"], "av": c["lv"], "dev": c["ldev"]}, ch, real, stats)
                else:
                    classify_replay(rep, c, ch, real, stats)
                    verdicts.setdefault((perm_class(c["t"]), canon(NONE), canon(norm(c["x"])), ch), {})[tkey] = real["ok"]
                rep.note_nontrivial(tkey + "|obj|" + canon(norm(c["x"])) + "|" + ch)
            if sub and c["acc"] and len([s_ for s_ in rep.samples if "typed_object" in s_]) < 2 and c["t"]["k"] != "int":
                rep.sample({"typed_object": True, "type": type_str(c["t"]), "input": gamma_repr(c["x"]), "python": python_repro(c["t"], c["x"], "obj"),
                            "ref_accepts": c["acc"], "ref_results": c["res"], "alg_predicts": c["av"], "observed": outs[0]})
    pgroups = [g for g in verdicts.values() if len(g) > 1]
    stats["permutation_groups_compared"] = len(pgroups)
    stats["permutation_groups_with_different_real_verdicts"] = sum(1 for g in pgroups if len(set(g.values())) > 1)
    rep.extra["typed_objects_and_deep_compositions"] = ostats
    cases_all = cases + ocases

    # ---- TRACE: random deeper type hints (some with a default), validated by TLC
    ntypes, per_type = (160, 12) if tier == "quick" else (2500, 20)
    rjobs = random_cases(rnd, ntypes, per_type)
    rres = run_jobs(rjobs)
    obs, meta = [], []
    for (t, d, xs), r in zip(rjobs, rres):
        if "error" in r:
            stats["unbuildable_types"] += 1
            report_unbuildable(rep, t, r["error"])
            continue
        for x, outs in zip(xs, r["out"]):
            for ch, real in zip(channels(x), outs):
                if real["exc"]:
                    stats["non_argument_errors"] += 1
                    rep.add_drift(f"rejected with {real['exc']} instead of ArgumentError", {"type": type_str(t), "x": x, "channel": ch, "python": python_repro(t, x, ch, d)})
                if real["ok"] and real["v"]["k"] == "other":
                    rep.violation(f"unknown-result:{shape(t, x)}", "the result is not a value of the model", {"t": t, "x": x, "observed": real})
                    continue
                obs.append({"kind": "parse", "t": t, "d": d, "x": x, "ok": real["ok"], "v": real["v"]})
                meta.append({"chan": ch, "pyok": real["pyok"], "exc": real["exc"]})
                if (t["k"] not in LEAF or d["k"] != "none") and x["k"] != "none":
                    rep.note_nontrivial(canon(t) + "|" + canon(d) + "|" + canon(x))
    stats["random_types"] = len(rjobs)
    stats["random_types_with_a_default"] = sum(1 for _, d, _ in rjobs if d["k"] != "none")
    stats["random_types_max_depth"] = max((depth_of(t) for t, _, _ in rjobs), default=0)
    stats["random_observations"] = len(obs)
    uniq, index = dedupe(obs)
    rejects = validate_observations(rep, uniq, "c02", workers)
    by_obs = {}
    for kind, idx, clause in rejects:
        by_obs.setdefault(idx, []).append(clause)
    n_ref_bad = 0
    for n, o in enumerate(obs):
        cl = by_obs.get(index[n] + 1, [])
        m = meta[n]
        info = {"type": type_str(o["t"]), "t": o["t"], "d": o["d"], "x": o["x"], "channel": m["chan"], "python": python_repro(o["t"], o["x"], m["chan"], o["d"]),
                "observed": {"ok": o["ok"], "v": o["v"]}, "failed_clauses": cl}
        ref = [c for c in cl if c.startswith("ref")]
        if not ref:
            if o["ok"] and not m["pyok"]:
                rep.violation(f"validator:{shape(o['t'], o['x'])}", "the isinstance walk rejects a result that the specification calls conforming", info)
            elif cl:
                rep.add_drift("real code agrees with Ref but not with the Alg transcription", info)
            continue
        n_ref_bad += 1
        c = ref[0]
        if c.startswith("ref/as-alg/"):
            devs = sorted(d_ for d_ in c[len("ref/as-alg/"):].split("+") if d_)
            report_deviation(rep, devs, o["t"], o["x"], m["chan"], o["ok"], not o["ok"], info)
        else:
            rep.violation(f"{'accept' if o['ok'] else 'reject'}/other:{shape(o['t'], o['x'])}:{m['chan']}",
                          f"{type_str(o['t'])} with input {gamma_repr(o['x'])} ({m['chan']}"
                          + (f", default {gamma_repr(o['d'])}" if o["d"]["k"] != "none" else "") + f"): real code {'accepts' if o['ok'] else 'rejects'}"
                          + (f" with {o['v']}" if o["ok"] else "") + " against the specification", info)
    stats["random_observations_disagreeing_with_ref"] = n_ref_bad
    for o, m in list(zip(obs, meta))[:: max(1, len(obs) // 3)][:3]:
        rep.sample({"type": type_str(o["t"]), "default": gamma_repr(o["d"]) if o["d"]["k"] != "none" else None, "input": gamma_repr(o["x"]), "channel": m["chan"],
                    "observed": {"ok": o["ok"], "v": o["v"]}, "validated_by": "Trace_Types"})

    finish_stats(rep)
    rep.traces = n_exec + len(obs)
    rep.evaluations = len(cases_all) + len(obs)
    rep.extra.update(stats)
    rep.extra["model_types"] = len(types)
    rep.extra["model_cases"] = len(cases)
    rep.extra["model_cases_ref_accepts"] = sum(1 for c in cases if c["acc"])
    rep.extra["model_cases_with_named_deviation"] = sum(1 for c in cases if set(c["dev"]) - {"firstMatch"})
    rep.extra["vocabulary_rows_checked"] = n_vocab
    rep.extra["model_profile"] = model_profile(cases)
    rep.extra["replayed_executions"] = n_exec
    rep.extra["distinct_random_observations_validated_by_tlc"] = len(uniq)
    rep.rule = ("cases = (type hint, default, input) triples: every triple printed by TLC for the bounded grammar (inputs generated from the type: structures over conforming and "
                "non-conforming elements, arity +-1, wrong containers, texts of the vocabulary; arguments with a default x scalars of every kind incl. the ones ==-equal to it) executed "
                "through parse_object and, for texts, parse_args; plus seeded random hints up to depth 4.  non-trivial & distinct = distinct triples whose hint has a container, Union, "
                "Literal or Enum (or whose argument has a default) and whose input is not None")
    rep.exhaustive = False
    rep.explanation = (f"MC_Types enumerated its bounded grammar completely ({len(types)} (type term, default) pairs, type terms closed under permuting Union members, {len(cases)} cases, "
                       f"every law in every state); all {len(cases)} cases were replayed on the real code ({n_exec} executions over two channels); "
                       f"{len(obs)} further observations on {len(rjobs)} random hints (depth <= {stats['random_types_max_depth']}) were validated by TLC against Trace_Types. "
                       "The grammar itself is unbounded, so the run is not exhaustive for the property.")
    return rep.finish()


def dedupe(obs):
    """identical observations are validated once: returns the distinct ones and, per observation, the index of its representative"""
    seen, uniq, index = {}, [], []
    for o in obs:
        k = canon(o)
        if k not in seen:
            seen[k] = len(uniq)
            uniq.append(o)
        index.append(seen[k])
    return uniq, index


def finish_stats(rep):
    """violation keys by family (the part before the first ':'), for the evidence file; optional full dump for debugging."""
    fam = {}
    for v in rep._viol:
        fam[v["key"].split(":")[0]] = fam.get(v["key"].split(":")[0], 0) + 1
    rep.extra["violation_families"] = fam
    dump = os.environ.get("VERIF_DEBUG_DUMP")
    if dump:
        with open(dump, "w") as f:
            json.dump({"viol": rep._viol, "known": {k: d["count"] for k, d in rep._known_seen.items()}, "drift": rep.drift}, f, default=str)


def validate_observations(rep, obs, prefix, workers, chunk=20000):
    """code -> spec: TLC evaluates the specification on every recorded observation."""
    rejects = []
    if not obs:
        return rejects
    tmp = common.scratch(prefix)
    try:
        for c in range(0, len(obs), chunk):
            part = obs[c : c + chunk]
            f = tmp / f"obs{c}.json"
            f.write_text(json.dumps({"obs": part}))
            tr = tlc.run("Trace_Types", "Trace_Types", workers=workers, env={"TRACE_FILE": str(f)}, timeout=3000, heap="12g")
            rep.add_tlc(f"Trace_Types[{c // chunk}]", tr)
            if tr.errors or tr.distinct != len(part):
                machinery_failure(rep.pid, f"trace validation failed (distinct={tr.distinct}, expected {len(part)}):\n" + tr.stdout[-3000:])
            for p in tr.printed:
                if isinstance(p, list) and p and p[0] == "R":
                    rejects.append((p[1], p[2] + c, p[3]))
            f.unlink()
    finally:
        common.rm(tmp)
    return rejects


def replay(path) -> int:
    """./check C02 --replay <file>: run the recorded case again on the real code and show it next to the record."""
    rec = json.loads(open(path).read())
    case = rec.get("case", {})
    print(f"property={rec.get('property')} key={rec.get('key')}\n  what: {rec.get('what')}")
    if "t" in case and "x" in case:
        tp = gamma_type(case["t"])
        for ch in ([case["channel"]] if case.get("channel") else channels(case["x"])):
            now = run_one(make_parser(tp), tp, case["x"], ch)
            print(f"  now ({ch}): {python_repro(case['t'], case['x'], ch)}\n    -> {json.dumps(now)}")
        print("  recorded: " + json.dumps({k: case[k] for k in ("ref_accepts", "ref_results", "alg", "observed", "failed_clauses") if k in case})[:2000])
    elif "t" in case:
        try:
            make_parser(gamma_type(case["t"]))
            print("  now: add_argument succeeds")
        except Exception as ex:
            print(f"  now: add_argument raises {type(ex).__name__}: {ex}")
    return 0


if __name__ == "__main__":
    args = sys.argv[1:]
    if args and args[0] == "--replay":
        sys.exit(replay(args[1]))
    sys.exit(main(args))
