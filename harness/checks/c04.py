"""C04 — sources override each other in the documented order, left to right.

  MC      tlc MC_Sources (one run per focus set of keys): every assignment of source-tagged values to every subset
          of the sources (default config files, env config, env variables, command line options / '+' appends /
          dict items / config files and strings, or a config string / object / path, or parse_env); the stages of
          the parse (Alg) are separate actions; invariants DocumentedOrder (Alg = documented fold, Ref),
          StagesAgree, NoPendingAppend, LastOptWins.  Every behaviour is emitted.
  REPLAY  (spec -> code) every emitted source assignment is rendered into real files / os.environ / argv and run
          on a real parser in a worker process; the result is compared with the fold TLC computed (verdict) and
          with the staged algorithm (drift).
  TRACE   (code -> spec) seeded random source mixes over a richer shape (more keys, deeper nesting, up to 3 default
          config files incl. a glob, up to 6 command line items) are run on the real code and the observed final
          configurations are validated by TLC against Trace_Sources.
  SUB     the same three steps for the options of a SUB-COMMAND (c04_sub.py, spec/SubSources.tla): sub-parser default
          config file, section of the root default config file, environment, --cfg sections before the sub-command
          name, the sub-parser's own --cfg / options after it.
"""
from __future__ import annotations

import json
import sys

from ..lib import common, pipeline, tlc
from ..lib.evidence import Report, machinery_failure
from . import c04_sub

PID = "C04"
KINDS = {"a": "int", "l": "list", "d": "dict", "g.x": "int", "g.y": "int", "s": "str", "n": "optint", "my-list": "list", "g.my-list": "list"}
FOCI = {"quick": ["a", "l", "d", "g", "s", "n", "al", "dl", "ml"], "thorough": ["a", "l", "d", "g", "s", "n", "al", "dl", "adl", "sn", "ml"]}

RICH_KINDS = {"a": "int", "b": "int", "l": "list", "m": "list", "d": "dict", "e": "dict", "g.x": "int", "g.l": "list", "g.h.z": "int", "g.h.d": "dict",
              "s": "str", "g.t": "str", "n": "optint", "g.h.o": "optint", "my-list": "list", "g.h.my-list": "list"}


def rich_defaults():
    return {k: ([7] if kd in ("str", "optint") else [0]) for k, kd in RICH_KINDS.items()}  # dict default {k0: 0} = [Enc(0, 0)]


def scalar(rnd, kd, tag):
    if kd == "str" and rnd.random() < 0.3:
        return [0]  # the empty string
    if kd == "optint" and rnd.random() < 0.3:
        return [pipeline.NONE]
    return [tag]


def random_cfg(rnd, tag, kinds, allow_item=False):
    asgs = []
    for k, kd in kinds.items():
        r = rnd.random()
        if r < 0.6:
            continue
        if kd == "list" and r < 0.8:
            asgs.append({"key": k, "op": "app", "item": 0, "v": [tag] if rnd.random() < 0.7 else [tag, tag + 1]})
        elif kd == "dict":
            asgs.append({"key": k, "op": "set", "item": 0, "v": [rnd.randint(1, 3) * pipeline.ENC + tag]})
        else:
            asgs.append({"key": k, "op": "set", "item": 0, "v": scalar(rnd, kd, tag)})
    rnd.shuffle(asgs)
    return asgs


def random_source(rnd):
    kinds = RICH_KINDS
    nd = rnd.randint(0, 3)
    s = {"defaults": rich_defaults(), "dcf": [random_cfg(rnd, 100 * (i + 1), kinds) for i in range(nd)],
         "env": rnd.random() < 0.6, "envc": [], "envv": [], "argv": [], "last": [], "method": "args"}
    if nd == 3 and s["dcf"][0] and rnd.random() < 0.4:
        s["dcf"][2] = s["dcf"][0]   # the first file listed again after the second (read twice)
    if s["env"]:
        if rnd.random() < 0.6:
            s["envc"] = random_cfg(rnd, 500, kinds)
        for k, kd in kinds.items():
            if rnd.random() < 0.2:
                s["envv"].append({"key": k, "op": "set", "item": 0, "v": [rnd.randint(1, 3) * pipeline.ENC + 600] if kd == "dict" else scalar(rnd, kd, 600)})
    m = rnd.random()
    if m < 0.7:
        for n in range(rnd.randint(0, 6)):
            tag = 1000 + 10 * n
            r = rnd.random()
            if r < 0.25:
                c = random_cfg(rnd, tag, kinds)
                if c:
                    s["argv"].append({"kind": "cfg", "asgs": c})
                continue
            k = rnd.choice(list(kinds))
            kd = kinds[k]
            if kd == "list" and rnd.random() < 0.6:
                a = {"key": k, "op": "app", "item": 0, "v": [tag]}
            elif kd == "dict" and rnd.random() < 0.6:
                a = {"key": k, "op": "item", "item": rnd.randint(0, 3), "v": [tag]}
            elif kd == "dict":
                a = {"key": k, "op": "set", "item": 0, "v": [rnd.randint(1, 3) * pipeline.ENC + tag]}
            else:
                a = {"key": k, "op": "set", "item": 0, "v": scalar(rnd, kd, tag)}
            s["argv"].append({"kind": "opt", "asgs": [a]})
    elif m < 0.95:
        s["method"] = rnd.choice(["string", "object", "path"])
        s["last"] = random_cfg(rnd, 2000, kinds) or [{"key": "a", "op": "set", "item": 0, "v": [2000]}]
    else:
        s["method"] = "env"
        s["env"] = True
    if not s["env"]:
        # variables may be present in the process environment; they must be ignored
        pass
    return s


def touching(s, key):
    """which sources touch `key`, in order: 'dcf1.set>envc.app>argv2.item' (identifies the failing history)"""
    out = []
    for i, f in enumerate(s["dcf"]):
        out += [f"dcf{i + 1}.{a['op']}" for a in f if a["key"] == key]
    if s["env"]:
        out += [f"envc.{a['op']}" for a in s["envc"] if a["key"] == key]
        out += [f"envv.{a['op']}" for a in s["envv"] if a["key"] == key]
    for n, it in enumerate(s["argv"]):
        out += [f"{'opt' if it['kind'] == 'opt' else 'cfg'}.{a['op']}" for a in it["asgs"] if a["key"] == key]
    out += [f"{s['method']}.{a['op']}" for a in s["last"] if a["key"] == key]
    return ">".join(out) or "untouched"


def main(argv):
    tier = "thorough" if (argv and argv[0] == "thorough") else "quick"
    rep = Report(PID, tier)
    rnd = common.rng(PID)
    rep.assumptions = [
        "gamma renders assignments as JSON text (json.dumps) into files, APP_* variables (documented naming rule PREFIX_[LEV__]*OPT) and argv; alpha reads cfg[key] and maps anything unexpected to a marker value",
        "within ONE config at most one operation per key (the property does not order 'l' and 'l+' inside one mapping)",
        "precedence of a namespace= argument is not claimed (undocumented)",
        "values are ints tagged with the source they come from; dict items are k<i>",
    ]
    n_model = 0
    for focus in FOCI[tier]:
        cfgname = f"MC_Sources_{tier}_{focus}"   # the thorough cfgs have 3 default config files and 4 command line items
        # thorough: TLC checks every behaviour; the behaviours are kept as text and replayed in slices, for the large
        # instances a deterministic sample (1 in RAW_MOD, chosen by a digest of the record) -- decoded all at once
        # they do not fit into memory
        raw = 0 if tier == "quick" else RAW_MOD.get(focus, 1)
        mc = tlc.run("MC_Sources", cfgname, workers=16, timeout=4800, heap="12g", raw_mod=raw)
        rep.add_tlc(cfgname, mc)
        if mc.errors:
            if mc.violated:
                rep.violation("model:" + ",".join(mc.violated) + ":" + focus, f"TLC: {mc.violated} violated in MC_Sources (focus {focus}): the staged algorithm is not the documented fold",
                              {"tlc_errors": mc.errors, "counterexample": mc.cex[:6000]})
                continue
            machinery_failure(PID, f"TLC failed on {cfgname}:\n" + mc.stdout[-3000:])
        if raw:
            texts = [s for s in mc.printed if isinstance(s, str) and s.startswith("{") and '"s":' in s]
            n_emitted = mc.printed_total
        else:
            texts = [json.dumps(p, sort_keys=True, separators=(",", ":")) for p in mc.printed if isinstance(p, dict) and "s" in p]
            n_emitted = len(texts)
        if n_emitted != mc.init_states or not texts:
            machinery_failure(PID, f"{cfgname}: emitted {n_emitted} behaviours for {mc.init_states} initial states")
        rep.extra.setdefault("model_behaviours_checked", {})[focus] = n_emitted
        mc.printed, mc.stdout = [], ""
        del mc
        texts.sort()
        for lo in range(0, len(texts), 50000):
            cases = []
            for n, s in enumerate(texts[lo:lo + 50000], start=lo):
                c = json.loads(s)
                cases.append({"s": c["s"], "ref": c["ref"], "alg": c["alg"], "dev": c["dev"], "kinds": KINDS, "variant": n % 6, "focus": focus})
            # ---- REPLAY: spec -> code
            results = pipeline.run_many(pipeline.run_source_case, cases)
            n_model += len(cases)
            judge_model(rep, cases, results)
            del cases, results
        del texts
    rep.extra["model_behaviours"] = n_model
    replay_random(rep, tier, rnd, n_model)
    return rep.finish()


RAW_MOD: dict = {"sn": 8}   # focus -> 1 in n behaviours replayed in the thorough tier (default: all); sn has 1.2 million


def judge_model(rep, cases, results):
    for c, r in zip(cases, results):
        rep.traces += 1
        s = c["s"]
        if "err" in r:
            rep.violation(f"rejected:{s['method']}:{r['cls']}", f"a valid source assignment was rejected: {r['err']}", {"case": c, "result": r})
            continue
        obs = r["ok"]
        changed = [k for k in obs if obs[k] != s["defaults"][k]]
        if changed:
            rep.note_nontrivial(json.dumps(s, sort_keys=True))
        if obs != c["ref"]:
            bad = sorted(k for k in obs if obs[k] != c["ref"][k])
            if c["dev"] and obs == c["alg"]:
                rep.violation("env-config:append", "'key+' in the environment config replaces instead of appending",
                              {"source": s, "expected_fold": c["ref"], "observed": obs, "call": r.get("call"), "env": r.get("env")})
            else:
                for k in bad:
                    rep.violation(f"{s['method']}:{KINDS[k]}:{touching(s, k)}",
                                  f"final value of '{k}' is {obs[k]} but the documented fold gives {c['ref'][k]}",
                                  {"source": s, "key": k, "expected_fold": c["ref"], "observed": obs, "call": r.get("call"), "env": r.get("env"),
                                   "variant": c["variant"], "patterns": r.get("patterns")})
        elif obs != c["alg"]:
            rep.add_drift("real code = fold but not the staged Alg", {"source": s, "alg": c["alg"], "observed": obs})
        if rep.traces % 9973 == 1:
            rep.sample({"source": s, "call": r.get("call"), "env": r.get("env"), "expected_fold": c["ref"], "observed": obs})


def replay_random(rep, tier, rnd, n_model):
    # ---- TRACE: code -> spec on richer random mixes
    ntr = 1500 if tier == "quick" else 25000
    rcases = [{"s": random_source(rnd), "kinds": RICH_KINDS, "variant": rnd.randint(0, 5)} for _ in range(ntr)]
    rres = pipeline.run_many(pipeline.run_source_case, rcases)
    tmp = common.scratch("c04")
    try:
        oks = [(c, r) for c, r in zip(rcases, rres) if "ok" in r]
        for c, r in zip(rcases, rres):
            if "err" in r:
                rep.violation(f"rejected:{c['s']['method']}:{r['cls']}", f"a valid random source assignment was rejected: {r['err']}", {"case": c, "result": r})
        f = tmp / "cases.json"
        f.write_text(json.dumps([{"s": {k: v for k, v in c["s"].items() if k != "method"}, "obs": r["ok"]} for c, r in oks]))
        tr = tlc.run("Trace_Sources", "Trace_Sources", workers=16, env={"TRACE_FILE": str(f)}, timeout=2400, heap="12g")
        rep.add_tlc("Trace_Sources", tr)
        if tr.errors or tr.distinct != len(oks):
            machinery_failure(PID, f"trace validation failed (distinct={tr.distinct}, expected {len(oks)}):\n" + tr.stdout[-3000:])
        rej = {}
        for p in tr.printed:
            if isinstance(p, list) and p and p[0] == "R":
                rej.setdefault(p[2], []).append(p[3])
        for idx, clauses in sorted(rej.items()):
            c, r = oks[idx - 1]
            s = c["s"]
            case = {"source": s, "observed": r["ok"], "call": r.get("call"), "env": r.get("env"), "failed_clauses": clauses, "variant": c["variant"]}
            if "ref-dev-as-alg" in clauses:
                rep.violation("env-config:append", "'key+' in the environment config replaces instead of appending", case)
            elif "ref" in clauses:
                keys = "+".join(sorted({f"{RICH_KINDS[k]}:{touching(s, k)}" for k in r["ok"] if True})[:1])
                rep.violation(f"random:{s['method']}:{_first_bad(s, r['ok'])}", "final configuration of a random source mix is not the documented fold", case)
            else:
                rep.add_drift("random mix: real code = fold but not the staged Alg", case)
        rep.traces += len(oks)
        for c, r in oks:
            if any(r["ok"][k] != c["s"]["defaults"][k] for k in r["ok"]):
                rep.note_nontrivial(json.dumps(c["s"], sort_keys=True))
        if oks:
            rep.sample({"random_source": oks[0][0]["s"], "call": oks[0][1].get("call"), "observed": oks[0][1]["ok"]})
    finally:
        common.rm(tmp)
    # ---- the same property below a sub-command (spec/SubSources.tla)
    c04_sub.run(rep, tier, rnd)
    rep.evaluations = rep.traces
    rep.rule = ("cases = source assignments (which sources exist and what each assigns to which key with which operation); every behaviour of the bounded "
                "TLC instances plus seeded random mixes over a richer shape; non-trivial & distinct = distinct assignments whose result differs from the plain defaults")
    rep.exhaustive = False
    rep.explanation = (f"{n_model} behaviours = ALL behaviours of the bounded instances {FOCI[tier]} (per key kind exhaustively, two keys with shorter argv) were replayed on "
                       f"the real parser; {len(oks)} random mixes beyond the bounds were validated by TLC (Trace_Sources). The product over all keys is not enumerated. "
                       f"Below a sub-command: all {rep.extra.get('sub_model_cases')} cases of MC_SubSources replayed, {rep.extra.get('sub_random_cases')} random cases validated by Trace_SubSources.")


def _first_bad(s, obs):
    # identify the failing history by the first key (in shape order) whose sources are non-trivial; the trace spec
    # reports per case, so use the touching-history of every touched key as the key material
    hist = sorted({f"{RICH_KINDS[k]}:{touching(s, k)}" for k in obs if touching(s, k) != "untouched"})
    return "|".join(hist)[:150]


if __name__ == "__main__":
    args = sys.argv[1:]
    if args and args[0] == "--replay":
        print(open(args[1]).read())
        sys.exit(0)
    sys.exit(main(args))
