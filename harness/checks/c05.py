"""C05 — the same settings give the same configuration through every input channel.

  MC      tlc MC_Channels: every set of one or two settings (valid and invalid values, strings only where the
          position is str) over a shape with scalar / Optional / list / dict / nested keys; invariants
          ChannelIndependent (every channel's Alg pipeline = the channel-free Outcome), NullDeviationShape,
          ResultConforms.  Emits every settings set with the expected outcome.
  REPLAY  (spec -> code) each settings set is rendered for 9 channels (--k=v, --k v, --cfg file (nested), --cfg
          string (dotted), parse_string (nested), parse_path (dotted), object nested, object dotted, environment)
          and parsed under parser_mode yaml / json / jsonnet / omegaconf; every outcome must equal the expected one.
  TRACE   (code -> spec) seeded random settings (1-5 keys) over random richer shapes (nesting to depth 4) are run
          through all channels; TLC validates the recorded outcomes against Trace_Channels.
"""
from __future__ import annotations

import json
import os
import shutil
import sys
import tempfile

from ..lib import common, pipeline, tlc
from ..lib.evidence import Report, machinery_failure

PID = "C05"
MODES = ["yaml", "json", "jsonnet", "omegaconf"]
CHANNELS = ["argv_eq", "argv_sp", "argv_items", "cfg_file", "cfg_str", "parse_string", "parse_path", "object_nested", "object_dotted", "env"]
# JSON-legal spellings of the floats of the vocabulary (canonical id -> spellings); the id is repr(float)
SPELL = {
    "2.5": ["2.5", "25e-1", "0.25E1", "2.50"],
    "1.0": ["1.0", "1.00", "10e-1"],
    "2500.0": ["2500.0", "2.5e3", "2.5E3", "25e2", "2.5e+3", "0.25E4"],
    "1000.0": ["1000.0", "1e3", "1E3", "1e+3", "1.0e3", "10E2"],
    "1e-07": ["1e-07", "1E-7", "0.0000001", "1.0e-7"],
    "1e+16": ["1e+16", "1E16", "1e16", "10000000000000000.0", "1.0E+16"],
    "1.5": ["1.5", "15e-1", "1.5E0"],
    "0.5": ["0.5", "5e-1"],
    "-0.5": ["-0.5", "-5E-1"],
}


def py_el(el, variant):
    k, ident = el["k"], el["id"]
    if k == "int":
        return int(ident)
    if k == "float":
        return float(ident)
    if k == "bool":
        return ident == "true"
    if k == "null":
        return None
    return ident


def txt_el(el, variant):
    k, ident = el["k"], el["id"]
    if k == "float":
        sp = SPELL.get(ident, [ident])
        return sp[variant % len(sp)]
    if k == "str":
        return json.dumps(ident)
    return ident


def _grouped(v):
    keys = []
    for e in v["e"]:
        if e["key"] not in keys:
            keys.append(e["key"])
    return [(k, [e for e in v["e"] if e["key"] == k]) for k in keys]


def py_val(v, variant):
    if v["c"] == "scalar":
        return py_el(v["e"][0], variant)
    if v["c"] == "list":
        return [py_el(e, variant) for e in v["e"]]
    if v["c"] == "dictlist":
        return {k: [py_el(e, variant) for e in es] for k, es in _grouped(v)}
    return {e["key"]: py_el(e, variant) for e in v["e"]}


def txt_val(v, variant):
    """JSON text with the chosen number spellings"""
    if v["c"] == "scalar":
        return txt_el(v["e"][0], variant)
    if v["c"] == "list":
        return "[" + ", ".join(txt_el(e, variant) for e in v["e"]) + "]"
    if v["c"] == "dictlist":
        return "{" + ", ".join(json.dumps(k) + ": [" + ", ".join(txt_el(e, variant) for e in es) + "]" for k, es in _grouped(v)) + "}"
    return "{" + ", ".join(json.dumps(e["key"]) + ": " + txt_el(e, variant) for e in v["e"]) + "}"


def doc_text(ss, dotted, variant):
    """a JSON document holding the settings, nested or dotted spelling of nested keys"""
    def emit(node):
        return "{" + ", ".join(json.dumps(k) + ": " + (emit(x) if isinstance(x, dict) else x) for k, x in node.items()) + "}"

    root: dict = {}
    for st in ss:
        key, text = st["key"], txt_val(st["v"], variant)
        if dotted or "." not in key:
            root[key] = text
        else:
            cur = root
            parts = key.split(".")
            for p in parts[:-1]:
                cur = cur.setdefault(p, {})
            cur[parts[-1]] = text
    return emit(root)


def obj_of(ss, dotted, variant):
    root: dict = {}
    for st in ss:
        key, val = st["key"], py_val(st["v"], variant)
        if dotted or "." not in key:
            root[key] = val
        else:
            cur = root
            parts = key.split(".")
            for p in parts[:-1]:
                cur = cur.setdefault(p, {})
            cur[parts[-1]] = val
    return root


BOOL_SPELL = {"true": ["true", "True", "TRUE", "yes", "Yes", "YES"], "false": ["false", "False", "FALSE", "no", "No", "NO"]}


def raw_text(v, variant, mode="json"):
    """what a user types on the command line / in the environment: strings raw, everything else as JSON; under the
    default yaml mode a boolean is typed in any of its YAML 1.1 spellings"""
    if v["c"] == "scalar" and v["e"][0]["k"] == "str":
        return v["e"][0]["id"]
    if v["c"] == "scalar" and v["e"][0]["k"] == "bool" and mode == "yaml":
        sp = BOOL_SPELL[v["e"][0]["id"]]
        return sp[variant % len(sp)]
    return txt_val(v, variant)


def hint_of(t):
    from typing import Dict, List, Optional

    st = {"int": int, "float": float, "bool": bool, "str": str}[t["st"]]
    h = st if t["c"] == "scalar" else List[st] if t["c"] == "list" else Dict[str, List[st]] if t["c"] == "dictlist" else Dict[str, st]
    return Optional[h] if t["opt"] else h


def abs_val(x):
    def el(y, key=""):
        if y is None:
            return {"k": "null", "id": "null", "key": key}
        if y is True or y is False:
            return {"k": "bool", "id": "true" if y else "false", "key": key}
        if type(y) is int:
            return {"k": "int", "id": str(y), "key": key}
        if type(y) is float:
            return {"k": "float", "id": repr(y), "key": key}
        if type(y) is str:
            return {"k": "str", "id": y, "key": key}
        return {"k": "?" + type(y).__name__, "id": repr(y)[:40], "key": key}

    if type(x) is list:
        return {"c": "list", "e": [el(y) for y in x]}
    if type(x) is dict and x and all(type(y) is list and y for y in x.values()):
        return {"c": "dictlist", "e": [el(z, str(k)) for k, y in x.items() for z in y]}
    if type(x) is dict:
        return {"c": "dict", "e": [el(y, str(k)) for k, y in x.items()]}
    return {"c": "scalar", "e": [el(x)]}


def run_case(case):
    """one settings set through every channel x mode of the case; returns list of outs [ch, mode, ok, cfg | err]"""
    from jsonargparse import ActionConfigFile, ActionYesNo, ArgumentError, ArgumentParser

    shape, ss, variant = case["shape"], case["ss"], case["variant"]
    outs = []
    tmp = tempfile.mkdtemp(prefix="verif-ch-")
    saved_env = dict(os.environ)
    try:
        for k in list(os.environ):
            if k.startswith("APP_") or (k.startswith("JSONARGPARSE_") and k != common.GUARD):
                del os.environ[k]
        for mode in case["modes"]:
            for ch in CHANNELS:
                p = ArgumentParser(exit_on_error=False, env_prefix="APP", parser_mode=mode)
                p.add_argument("--cfg", action=ActionConfigFile)
                for key, t in shape.items():
                    if key.split(".")[-1] == "yn":  # a yes/no flag (ActionYesNo) instead of type=bool
                        p.add_argument("--" + key, action=ActionYesNo, nargs="?", default=None)
                    else:
                        p.add_argument("--" + key, type=hint_of(t))
                try:
                    if ch == "argv_eq":
                        call = [f"--{st['key']}={raw_text(st['v'], variant, mode)}" for st in ss]
                        cfg = p.parse_args(call)
                    elif ch == "argv_items":
                        call = []
                        for st in ss:
                            v = st["v"]
                            if shape[st["key"]]["st"] == "str" and v["c"] == "dict" and any(e["k"] != "str" for e in v["e"]):
                                call.append(f"--{st['key']}={raw_text(v, variant, mode)}")  # item-wise, a non-string would be the text of a string item (ambiguous)
                            elif v["c"] == "dict" and v["e"] and shape[st["key"]]["c"] in ("dict", "dictlist"):
                                call += [f"--{st['key']}.{e['key']}={raw_text({'c': 'scalar', 'e': [e]}, variant, mode)}" for e in v["e"]]
                            elif v["c"] == "dictlist" and shape[st["key"]]["c"] in ("dict", "dictlist"):
                                call += [f"--{st['key']}.{k}=[" + ", ".join(txt_el(e, variant) for e in es) + "]" for k, es in _grouped(v)]
                            else:
                                call.append(f"--{st['key']}={raw_text(v, variant, mode)}")
                        cfg = p.parse_args(call)
                    elif ch == "argv_sp":
                        call = []
                        for st in ss:
                            txt = raw_text(st["v"], variant, mode)
                            # a value starting with '-' cannot be given as a separate argv item (argparse takes it for an option)
                            call += [f"--{st['key']}={txt}"] if txt.startswith("-") else ["--" + st["key"], txt]
                        cfg = p.parse_args(call)
                    elif ch == "cfg_file":
                        call = doc_text(ss, False, variant)
                        f = os.path.join(tmp, "c.json")
                        with open(f, "w") as fh:
                            fh.write(call)
                        cfg = p.parse_args(["--cfg", f])
                    elif ch == "cfg_str":
                        call = doc_text(ss, True, variant)
                        cfg = p.parse_args(["--cfg=" + call])
                    elif ch == "parse_string":
                        call = doc_text(ss, False, variant)
                        cfg = p.parse_string(call)
                    elif ch == "parse_path":
                        call = doc_text(ss, True, variant)
                        f = os.path.join(tmp, "p.json")
                        with open(f, "w") as fh:
                            fh.write(call)
                        cfg = p.parse_path(f)
                    elif ch == "object_nested":
                        call = obj_of(ss, False, variant)
                        cfg = p.parse_object(call)
                    elif ch == "object_dotted":
                        call = obj_of(ss, True, variant)
                        cfg = p.parse_object(call)
                    elif ch == "env":
                        call = {pipeline.env_name(st["key"]): raw_text(st["v"], variant, mode) for st in ss}
                        cfg = p.parse_env(call)
                    out = {"ch": ch, "mode": mode, "ok": True, "cfg": {key: abs_val(cfg[key]) for key in shape}, "call": repr(call)[:300]}
                except ArgumentError as ex:
                    out = {"ch": ch, "mode": mode, "ok": False, "cfg": None, "call": repr(call)[:300], "err": str(ex)[:200]}
                except SystemExit as ex:
                    out = {"ch": ch, "mode": mode, "ok": False, "cfg": None, "call": repr(call)[:300], "err": f"exit {ex.code}", "escaped": "SystemExit"}
                except Exception as ex:
                    out = {"ch": ch, "mode": mode, "ok": False, "cfg": None, "call": repr(call)[:300], "err": f"{type(ex).__name__}: {ex}"[:200], "escaped": type(ex).__name__}
                outs.append(out)
        return outs
    finally:
        os.environ.clear()
        os.environ.update(saved_env)
        shutil.rmtree(tmp, ignore_errors=True)


DEV_TEXT = {
    "null:non-optional;": "a null for a non-Optional key is kept by config/object channels but rejected on the command line and in the environment",
    "jsonnet:integral-float;": "under parser_mode=jsonnet an integral float of a JSON document (2500.0, 2.5e3, 1.0) is read as an int, so it is accepted by int positions and rejected nowhere else",
}
NULLV = {"c": "scalar", "e": [{"k": "null", "id": "null", "key": ""}]}


def fill(out, shape):
    """the uniform record TLC compares: a rejected outcome carries the all-null configuration"""
    return {"ch": out["ch"], "mode": out["mode"], "ok": out["ok"], "cfg": out["cfg"] if out["ok"] else {k: NULLV for k in shape}}


# ---------------------------------------------------------------- random richer shapes and settings
def random_shape(rnd):
    names = ["a", "b", "c", "d", "e"]
    if rnd.random() < 0.35:  # names that are attributes of the Namespace class are ordinary keys too
        names = ["a", "b", "items", "values", "get"]
    shape = {}
    n = rnd.randint(3, 8)
    tries = 0
    while len(shape) < n and tries < 200:
        tries += 1
        depth = rnd.choice([1, 1, 2, 2, 3, 4])
        key = ".".join(rnd.choice(names) for _ in range(depth))
        if any(k == key or k.startswith(key + ".") or key.startswith(k + ".") for k in shape):
            continue
        shape[key] = {"c": rnd.choice(["scalar", "scalar", "scalar", "list", "list", "dict", "dict", "dictlist"]), "st": rnd.choice(["int", "float", "bool", "str"]), "opt": rnd.random() < 0.3}
    if rnd.random() < 0.4:
        pre = rnd.choice(["", "f.", "f.g."])
        if not any(k == pre + "yn" or k.startswith(pre + "yn.") or (pre and (k + ".").startswith(pre)) and False for k in shape) and not any(k == pre.rstrip(".") for k in shape if pre):
            shape[pre + "yn"] = {"c": "scalar", "st": "bool", "opt": False}
    return shape


def random_value(rnd, t):
    def el(kind, key=""):
        if kind == "int":
            return {"k": "int", "id": str(rnd.choice([0, 1, 3, -3, 42, 1000])), "key": key}
        if kind == "float":
            return {"k": "float", "id": rnd.choice(list(SPELL)), "key": key}
        if kind == "bool":
            return {"k": "bool", "id": rnd.choice(["true", "false"]), "key": key}
        return {"k": "str", "id": rnd.choice(["abc", "x y", "a1", "v-1", "A_b", "a=b", "k=v=w", "p:q"]), "key": key}

    r = rnd.random()
    if t["c"] == "scalar" and t["st"] == "str":
        # every text is a string at a str position: only strings (and null when Optional) are unambiguous there
        if t["opt"]:
            return NULLV if r < 0.4 else {"c": "scalar", "e": [el("str")]}
        if r < 0.5:
            return {"c": "scalar", "e": [{"k": "str", "id": rnd.choice(["1", "true", "", "1e3", "null", "2.5", "[1]", "{}", "a: b", "#c", "0x10", "1_000", "yes", "~", "-1", " x "]), "key": ""}]}
        return {"c": "scalar", "e": [el("str")]}
    if r < 0.12:
        return NULLV
    # mostly the right shape, sometimes a wrong kind / wrong container
    c, st = t["c"], t["st"]
    if r < 0.3:
        st = rnd.choice([x for x in ["int", "float", "bool"] if x != st])  # wrong non-string kind (strings only at str positions)
    if r > 0.9:
        c = rnd.choice([x for x in ["scalar", "list", "dict"] if x != c and not (x == "dict" and c == "dictlist")])
    if st == "str" and t["st"] != "str":
        st = "int"
    if c == "scalar":
        e = el(st)
        if st == "str" and t["c"] == "scalar" and t["st"] == "str" and not t["opt"] and rnd.random() < 0.4:
            e = {"k": "str", "id": rnd.choice(["1", "true", "", "1e3", "null", "2.5", "[1]", "{}", "a: b", "#c", "0x10", "1_000", "yes"]), "key": ""}
        return {"c": "scalar", "e": [e]}
    if c == "list":
        return {"c": "list", "e": [el(st) for _ in range(rnd.randint(0, 3))]}
    if c == "dictlist":
        return {"c": "dictlist", "e": [el(st, f"k{j}") for j in range(rnd.randint(1, 2)) for _ in range(rnd.randint(1, 3))]}
    return {"c": "dict", "e": [el(st, f"k{j}") for j in range(rnd.randint(0, 3))]}


def main(argv):
    tier = "thorough" if (argv and argv[0] == "thorough") else "quick"
    rep = Report(PID, tier)
    rnd = common.rng(PID)
    rep.assumptions = [
        "unambiguous settings only: strings are offered at str-typed positions (and inside list/dict JSON text), never the texts null/~ at Optional[str]",
        "gamma renders non-strings as JSON text with several JSON-legal number spellings (2.5e3, 1E3, 1e+16 ...), strings raw on argv / environment; environment names by the documented rule",
        "TOML is not claimed (not a JSON superset); a value starting with '-' is passed as --k=v also on the '--k v' channel",
        "alpha maps int/float/bool/None/str/list/dict to the abstract encoding, floats by repr()",
    ]
    mc = tlc.run("MC_Channels", f"MC_Channels_{tier}", workers=16, timeout=3000, heap="12g")
    rep.add_tlc(f"MC_Channels_{tier}", mc)
    if mc.errors:
        if mc.violated:
            rep.violation("model:" + ",".join(mc.violated), f"TLC: {mc.violated} violated in MC_Channels", {"tlc_errors": mc.errors, "counterexample": mc.cex[:5000]})
            return rep.finish()
        machinery_failure(PID, "TLC failed on MC_Channels:\n" + mc.stdout[-3000:])
    shape = [p for p in mc.printed if isinstance(p, dict) and "shape" in p][0]["shape"]
    emitted = [p for p in mc.printed if isinstance(p, dict) and "ss" in p]
    if len(emitted) != mc.distinct:
        machinery_failure(PID, f"emitted {len(emitted)} settings for {mc.distinct} states")
    emitted.sort(key=lambda c: json.dumps(c["ss"], sort_keys=True))
    cases = []
    for n, c in enumerate(emitted):
        single = len(c["ss"]) == 1
        if tier == "thorough" and not single and n % 2:
            continue  # thorough: every second pair (TLC has checked all of them)
        modes = MODES if single else ([MODES[n % 4], MODES[(n + 1) % 4]] if tier == "thorough" else [MODES[n % 4]])   # pairs: rotating modes
        cases.append({"shape": shape, "ss": c["ss"], "variant": n, "modes": modes, "ref": c["ref"], "devs": c["devs"]})
    results = pipeline.run_many(run_case, cases, chunksize=8)
    n_out = 0
    for c, outs in zip(cases, results):
        rep.traces += 1
        if c["ref"]["ok"]:
            rep.note_nontrivial(json.dumps(c["ss"], sort_keys=True))
        for o in outs:
            n_out += 1
            seen = {"ok": o["ok"], "cfg": fill(o, shape)["cfg"]}
            if seen == c["ref"]:
                continue
            case = {"settings": c["ss"], "channel": o["ch"], "parser_mode": o["mode"], "call": o["call"], "observed": {"ok": o["ok"], "cfg": o["cfg"], "err": o.get("err")},
                    "expected": c["ref"], "other_channels": [{"ch": x["ch"], "mode": x["mode"], "ok": x["ok"]} for x in outs if x["mode"] == o["mode"]]}
            if o.get("escaped"):
                rep.violation(f"escaped:{o['escaped']}:{o['ch']}", f"channel {o['ch']} let {o['escaped']} escape", case)
            elif any(d["ch"] == o["ch"] and d["mode"] == o["mode"] and d["out"] == seen for d in c["devs"]):
                why = [d["why"] for d in c["devs"] if d["ch"] == o["ch"] and d["mode"] == o["mode"]][0]
                rep.violation("dev:" + why, DEV_TEXT.get(why, "the channel behaves as the named deviation(s) " + why), case)
            else:
                st = _blame(c["ss"], shape, seen, c["ref"])
                rep.violation(f"{o['ch']}:{o['mode'] if _mode_specific(outs, o) else 'anymode'}:{st}", f"channel {o['ch']} (mode {o['mode']}) disagrees with the channel-free outcome", case)
        if rep.traces % 401 == 1:
            rep.sample({"settings": c["ss"], "expected": c["ref"], "calls": [{"ch": o["ch"], "mode": o["mode"], "call": o["call"], "ok": o["ok"]} for o in outs[:9]]})
    rep.extra["model_settings"] = len(cases)
    rep.extra["model_parses"] = n_out

    # ---- TRACE: random richer shapes, validated by TLC
    ntr = 400 if tier == "quick" else 4000
    rcases = []
    for n in range(ntr):
        sh = random_shape(rnd)
        keys = rnd.sample(list(sh), rnd.randint(1, min(5, len(sh))))
        ss = [{"key": k, "v": random_value(rnd, sh[k])} for k in keys]
        rcases.append({"shape": sh, "ss": ss, "variant": rnd.randint(0, 50), "modes": [MODES[n % 4]] if tier == "quick" else MODES})
    rres = pipeline.run_many(run_case, rcases, chunksize=8)
    tmp = common.scratch("c05")
    try:
        f = tmp / "cases.json"
        f.write_text(json.dumps([{"shape": c["shape"], "ss": c["ss"], "outs": [fill(o, c["shape"]) for o in outs]} for c, outs in zip(rcases, rres)]))
        tr = tlc.run("Trace_Channels", "Trace_Channels", workers=16, env={"TRACE_FILE": str(f)}, timeout=3000, heap="12g")
        rep.add_tlc("Trace_Channels", tr)
        if tr.errors or tr.distinct != len(rcases):
            machinery_failure(PID, f"trace validation failed (distinct={tr.distinct}, expected {len(rcases)}):\n" + tr.stdout[-3000:])
        for p in tr.printed:
            if isinstance(p, list) and p and p[0] == "R":
                c, outs = rcases[p[1] - 1], rres[p[1] - 1]
                o = outs[p[2] - 1]
                case = {"shape": c["shape"], "settings": c["ss"], "channel": o["ch"], "parser_mode": o["mode"], "call": o["call"],
                        "observed": {"ok": o["ok"], "cfg": o["cfg"], "err": o.get("err")}, "clause": p[3],
                        "other_channels": [{"ch": x["ch"], "mode": x["mode"], "ok": x["ok"]} for x in outs if x["mode"] == o["mode"]]}
                if o.get("escaped"):
                    rep.violation(f"escaped:{o['escaped']}:{o['ch']}", f"channel {o['ch']} let {o['escaped']} escape", case)
                elif p[3].startswith("dev:"):
                    rep.violation(p[3], DEV_TEXT.get(p[3][4:], "the channel behaves as the named deviation(s) " + p[3][4:]), case)
                else:
                    rep.violation(f"random:{o['ch']}:{o['mode'] if _mode_specific(outs, o) else 'anymode'}:{_blame_random(c, o)}", f"random settings: channel {o['ch']} (mode {o['mode']}) disagrees with the channel-free outcome", case)
        rep.traces += len(rcases)
        rep.extra["random_parses"] = sum(len(o) for o in rres)
        for c, outs in zip(rcases, rres):
            if any(o["ok"] for o in outs):
                rep.note_nontrivial(json.dumps([c["shape"], c["ss"]], sort_keys=True))
        rep.sample({"random_shape": rcases[0]["shape"], "settings": rcases[0]["ss"], "outs": [{"ch": o["ch"], "mode": o["mode"], "ok": o["ok"], "call": o["call"]} for o in rres[0][:9]]})
    finally:
        common.rm(tmp)
    rep.evaluations = rep.extra["model_parses"] + rep.extra["random_parses"]
    rep.rule = ("cases = settings sets (1-2 keys from the TLC instance, 1-5 keys random), each parsed through 9 channel renderings x parser modes; "
                "non-trivial & distinct = distinct settings sets that are accepted by at least one channel (a configuration is actually produced and compared)")
    rep.exhaustive = False
    rep.explanation = (f"all {len(cases)} settings sets of MC_Channels_{tier} x 9 channels x parser modes ({n_out} parses) compared with the channel-free outcome computed by TLC; "
                       f"{len(rcases)} random settings sets over random shapes ({rep.extra['random_parses']} parses) validated by TLC against Trace_Channels")
    return rep.finish()


def _mode_specific(outs, o):
    """does the same channel agree under another parser mode? then the failure is specific to this mode"""
    same = [x for x in outs if x["ch"] == o["ch"] and x["mode"] != o["mode"]]
    return any((x["ok"], json.dumps(x["cfg"], sort_keys=True)) != (o["ok"], json.dumps(o["cfg"], sort_keys=True)) for x in same)


def _kind(v):
    return v["c"] + ":" + ",".join(sorted({e["k"] for e in v["e"]}))


def _blame(ss, shape, seen, ref):
    if seen["ok"] != ref["ok"]:
        return ("accepted-but-should-reject:" if seen["ok"] else "rejected-but-should-accept:") + "+".join(f"{shape[s['key']]['c']}-{shape[s['key']]['st']}{'?' if shape[s['key']]['opt'] else ''}<-{_kind(s['v'])}" for s in ss)
    bad = [k for k in ref["cfg"] if seen["cfg"][k] != ref["cfg"][k]]
    return "value:" + "+".join(f"{shape[k]['c']}-{shape[k]['st']}<-{_kind(seen['cfg'][k])}" for k in bad)


def _blame_random(c, o):
    return ("accepted" if o["ok"] else "rejected") + ":" + "+".join(sorted(f"{c['shape'][s['key']]['c']}-{c['shape'][s['key']]['st']}{'?' if c['shape'][s['key']]['opt'] else ''}<-{_kind(s['v'])}" for s in c["ss"]))[:160]


if __name__ == "__main__":
    args = sys.argv[1:]
    if args and args[0] == "--replay":
        print(open(args[1]).read())
        sys.exit(0)
    sys.exit(main(args))
