"""C03 — every parse failure surfaces as ArgumentError or exit status 2, nothing else.

  MC      tlc MC_Failures: the handler lattice of the five parse methods -- every stage x exception class is pushed
          through the transcribed `except` clauses (Propagate); invariants AnticipatedProtected (every class a stage is
          written to raise ends in ArgumentParser.error, except the one route the lattice itself shows unprotected),
          ConversionsLand, ExitPasses, OuterFrame.  The table is emitted.
  REPLAY  (spec -> code) INJECTION: for every (method, stage, class) row whose stage has an injection site, the
          failure is made real (a patched collaborator raises that class at that stage while the real parse method
          runs) and what comes out is recorded; TLC validates it against Propagate on the same frames (a protected
          route that escapes is a VIOLATION, the rest is drift).
  TRACE   (code -> spec) FUZZ: a labelled grammar of known / unknown / malformed option names x well- and ill-formed
          values (broken YAML/JSON, anchors and aliases, bad import paths, wrong-typed class specs, missing files,
          directories, non-mappings ...) over parser shapes with and without sub-commands, parser modes yaml / json /
          jsonnet, both exit_on_error modes, all five parse methods, stdin closed, per-case time limit; TLC validates
          every observed outcome against ChannelOK.
"""
from __future__ import annotations

import argparse
import contextlib
import enum
import io
import json
import os
import shutil
import signal
import sys
import tempfile
import warnings

from ..lib import common, pipeline, tlc
from ..lib.evidence import Report, machinery_failure

PID = "C03"


# ---------------------------------------------------------------- parser shapes
class Color(enum.Enum):
    RED = 1
    BLUE = 2


def make_module():
    import types

    if "verif_c03mod" in sys.modules:
        return sys.modules["verif_c03mod"]
    from dataclasses import dataclass

    m = types.ModuleType("verif_c03mod")
    sys.modules["verif_c03mod"] = m

    @dataclass
    class DC:
        x: int = 1
        y: str = "y"

    class Base:
        def __init__(self, a: int = 1):
            pass

    class Sub(Base):
        def __init__(self, a: int = 1, b: str = "b"):
            pass

    def not_a_class():
        return 1

    for c in (DC, Base, Sub):
        c.__module__ = "verif_c03mod"
        c.__qualname__ = c.__name__
        setattr(m, c.__name__, c)
    m.not_a_class = not_a_class
    m.Color = Color
    return m


def build(shape, mode, eoe, dcf=None):
    """dcf: path of a default config file of the ROOT parser (its content is part of the fuzzed input)"""
    import decimal
    from typing import Any, Callable, Dict, List, Literal, Optional, Set, Tuple, Type, Union

    from jsonargparse import ActionConfigFile, ActionYesNo, ArgumentParser
    from jsonargparse.typing import Path_fr, PositiveInt

    m = make_module()
    p = ArgumentParser(exit_on_error=eoe, env_prefix="APP", parser_mode=mode, default_config_files=[dcf] if dcf else None)
    p.add_argument("--cfg", action=ActionConfigFile)
    p.add_argument("--i", type=int, default=1)
    p.add_argument("--f", type=float, default=1.0)
    p.add_argument("--b", type=bool, default=False)
    p.add_argument("--s", type=Optional[str], default=None)
    p.add_argument("--l", type=List[int], default=[])
    p.add_argument("--d", type=Dict[str, int], default={})
    p.add_argument("--u", type=Union[int, List[str]], default=1)
    p.add_argument("--e", type=Color, default=Color.RED)
    p.add_argument("--p", type=Optional[Path_fr], default=None)
    p.add_argument("--pos", type=PositiveInt, default=1)
    p.add_argument("--dc", type=m.DC, default=m.DC())
    p.add_argument("--model", type=Optional[m.Base], default=None)
    p.add_argument("--models", type=List[m.Base], default=[])
    p.add_argument("--g.x", type=int, default=1)
    p.add_argument("--g.y.z", type=Optional[int], default=None)
    p.add_argument("--flag", action=ActionYesNo, default=False)
    # types whose branches have handlers of their own (not wrapped in Optional: a Union swallows everything)
    p.add_argument("--fn", type=Callable[[int], m.Base], default=None)
    p.add_argument("--cb", type=Callable, default=None)
    p.add_argument("--ty", type=Type[m.Base], default=m.Base)
    p.add_argument("--req", type=m.Base, default=None)
    p.add_argument("--dec", type=decimal.Decimal, default=decimal.Decimal("1"))
    p.add_argument("--tup", type=Tuple[int, str], default=(1, "a"))
    p.add_argument("--st", type=Set[int], default=None)
    p.add_argument("--lit", type=Literal["a", 1], default="a")
    p.add_argument("--any", type=Any, default=None)
    p.add_argument("--dl", type=Dict[str, List[int]], default={})
    # options without a type hint: their texts go through load_value / load_basic with nobody converting in between
    p.add_argument("--tags", nargs="+", default=[])
    p.add_argument("--raw", default=None)
    if shape == "sub":
        sc = p.add_subcommands(required=False)
        # sub-parsers built the plain way: their own exit_on_error must not matter
        a = ArgumentParser()
        a.add_argument("--k", type=int, default=1)
        a.add_argument("--m", type=Optional[m.Base], default=None)
        sc.add_subcommand("alpha", a)
        b = ArgumentParser(exit_on_error=not eoe)
        b.add_argument("--q", type=List[int], default=[])
        sc.add_subcommand("beta", b)
        sc2 = b.add_subcommands(required=True)
        c = ArgumentParser()
        c.add_argument("--w", type=float, default=0.5)
        sc2.add_subcommand("gamma", c)
        d = ArgumentParser()  # a sub-command with a REQUIRED option
        d.add_argument("--r", type=int, required=True)
        d.add_argument("--o", type=int, default=0)
        sc.add_subcommand("delta", d)
    return p


BAD_VALUES = [
    ("word", "abc"), ("empty", ""), ("open-map", "{a: "), ("open-seq", "[1,"), ("undefined-alias", "*alias"), ("self-alias", "&a [*a]"),
    ("at", "@home"), ("nested-colon", "a: b: c"), ("open-quote", "'unterminated"), ("percent", "%"), ("colon-key", "1:"), ("dot-underscore", "._"),
    ("hex-underscore", "0x_"), ("set-syntax", "{1}"), ("null", "null"), ("double-dash", "--"), ("dash", "-"), ("tab", "\t"), ("bang-tag", "!!python/object:os.system"),
    ("huge-int", "1" + "0" * 400), ("float-overflow", "1e999"), ("neg", "-1"), ("list", "[1, 2]"), ("map", '{"k": 1}'), ("map-badval", '{"k": "v"}'),
    ("bad-import", '{"class_path": "nonexistent.Mod"}'), ("import-module", '{"class_path": "os.path"}'), ("import-function", '{"class_path": "verif_c03mod.not_a_class"}'),
    ("wrong-class", '{"class_path": "calendar.Calendar"}'), ("bad-init-arg", '{"class_path": "verif_c03mod.Sub", "init_args": {"zz": 1}}'),
    ("init-args-not-map", '{"class_path": "verif_c03mod.Sub", "init_args": [1]}'), ("class-path-not-str", '{"class_path": 5}'),
    ("class-path-typing", '{"class_path": "typing.List"}'), ("class-name-only", "NoSuchClass"), ("deep", "[" * 40 + "]" * 40), ("unicode", "\u00e9\u4e2d\U0001f600"), ("nul", "a\x00b"),
]
# texts that pass the digit heuristics of the numeric pre-check of load_value (load_basic) without being numbers, and
# characters that str.isdigit accepts but int() does not: legal as strings, never a reason for anything but a parse error
NUM_LIKE = [("almost-float", "1e"), ("double-minus", "--1.5"), ("inner-minus", "1-2.5"), ("bare-exponent", "e.5"), ("dot-exponent", "1.e"), ("minus-exponent", "-e1"),
            ("superscript-digit", "\u00b2"), ("circled-digit", "\u2460"), ("minus-superscript", "-\u00b3"), ("two-exponents", "1e2e3"), ("exp-minus-only", "1e-"), ("dots", "1.2.3")]
BAD_VALUES += NUM_LIKE
OPTIONS = ["tags", "raw", "i", "f", "b", "s", "l", "d", "u", "e", "p", "pos", "dc", "model", "models", "g.x", "g.y.z", "flag", "cfg",
           "fn", "cb", "ty", "req", "dec", "tup", "st", "lit", "any", "dl"]
MALFORMED_NAMES = [
    ("unknown", ["--zz=1"]), ("unknown-dotted", ["--g.zz=1"]), ("trailing-dot", ["--g.=1"]), ("leading-dot", ["--.x=1"]), ("double-dot", ["--g..x=1"]),
    ("plus-no-value", ["--l+"]), ("plus-empty", ["--l+="]), ("plus-on-scalar", ["--i+=1"]), ("dict-empty-item", ["--d.=1"]), ("dict-double-dot", ["--d..k=1"]),
    ("class-trailing-dot", ["--model.=1"]), ("init-args-bare", ["--model.init_args=1"]), ("init-args-empty-key", ["--model.init_args.=1"]),
    ("init-arg-without-class", ["--model.init_args.a=1"]), ("sub-key-of-scalar", ["--i.x=1"]), ("dc-unknown-field", ["--dc.zz=1"]), ("leftover", ["stray"]),
    ("missing-value", ["--i"]), ("print-config-bad-flag", ["--print_config=bad"]), ("help", ["--help"]), ("print-config", ["--print_config"]),
    ("class-help-unknown", ["--model.help=nonexistent.Cls"]), ("class-help-then-unknown", ["--model.help=verif_c03mod.Sub", "--unknown"]),
    ("cfg-missing-file", ["--cfg=/nonexistent/file.yaml"]), ("cfg-empty", ["--cfg="]), ("equals-only", ["="]), ("dashes-only", ["--"]), ("single-dash", ["-"]),
    ("abbrev-ambiguous", ["--m=1"]), ("option-like-value", ["--s", "--i"]),
]


def productions(shape, tmp):
    """labelled inputs: (label, method, payload)"""
    out = []
    for opt in OPTIONS:
        for vl, v in BAD_VALUES:
            out.append((f"argv:{opt}:{vl}", "parse_args", [f"--{opt}={v}"]))
    for lab, argv in MALFORMED_NAMES:
        out.append((f"argv:{lab}", "parse_args", argv))
    # every bad value also as the value of the key in a config document and in an object (the value as JSON when it is JSON)
    for opt in OPTIONS:
        if opt in ("cfg",):
            continue
        for vl, v in BAD_VALUES:
            try:
                val = json.loads(v)
            except Exception:
                val = v
            node = val
            for part in reversed(opt.split(".")):
                node = {part: node}
            out.append((f"string:{opt}:{vl}", "parse_string", json.dumps(node)))
            out.append((f"object:{opt}:{vl}", "parse_object", node))
    out.append(("argv:dict-item-list", "parse_args", ["--dl.k=[1,"]))
    out.append(("argv:dict-item-bad", "parse_args", ["--dl.k=[1, \"a\"]"]))
    d = os.path.join(tmp, "adir")
    os.makedirs(d, exist_ok=True)
    broken = os.path.join(tmp, "broken.yaml")
    with open(broken, "w") as fh:
        fh.write("i: [1,\n")
    selfref = os.path.join(tmp, "selfref.yaml")
    with open(selfref, "w") as fh:
        fh.write("l: &a [*a]\n")
    notmap = os.path.join(tmp, "notmap.yaml")
    with open(notmap, "w") as fh:
        fh.write("- 1\n- 2\n")
    binary = os.path.join(tmp, "binary.yaml")
    with open(binary, "wb") as fh:
        fh.write(b"\xff\xfe\x00\x01i: 1")
    out += [("argv:cfg-directory", "parse_args", ["--cfg", d]), ("argv:cfg-broken-file", "parse_args", ["--cfg", broken]), ("argv:cfg-selfref-file", "parse_args", ["--cfg", selfref]),
            ("argv:cfg-notmap-file", "parse_args", ["--cfg", notmap]), ("argv:cfg-binary-file", "parse_args", ["--cfg", binary])]
    if shape == "sub":
        out += [("argv:sub-unknown", "parse_args", ["zz"]), ("argv:sub-bad-option", "parse_args", ["alpha", "--k=abc"]), ("argv:sub-unknown-option", "parse_args", ["alpha", "--zz=1"]),
                ("argv:sub-inner-missing", "parse_args", ["beta"]), ("argv:sub-inner-bad", "parse_args", ["beta", "gamma", "--w=abc"]), ("argv:sub-inner-unknown", "parse_args", ["beta", "zz"]),
                ("argv:sub-class-bad", "parse_args", ["alpha", '--m={"class_path": "nonexistent.Mod"}']), ("argv:sub-help", "parse_args", ["alpha", "--help"]),
                ("argv:sub-leftover", "parse_args", ["alpha", "stray"]), ("argv:sub-list-bad", "parse_args", ["beta", "--q=[1,", "gamma"]),
                ("env:sub-bad", "parse_env", {"APP_SUBCOMMAND": "alpha", "APP_ALPHA__K": "abc"}), ("env:sub-unknown", "parse_env", {"APP_SUBCOMMAND": "zz"}),
                ("object:sub-unknown", "parse_object", {"subcommand": "zz"}), ("object:sub-not-mapping", "parse_object", {"subcommand": "alpha", "alpha": 5}),
                ("string:sub-unknown", "parse_string", '{"subcommand": "zz"}'), ("argv:cfg-sub-unknown", "parse_args", ['--cfg={"subcommand": "zz"}'])]
    for opt in ("i", "l", "d", "u", "e", "p", "model", "dc", "cfg", "flag", "tags", "raw"):
        for vl, v in BAD_VALUES[:20] + BAD_VALUES[25:31] + NUM_LIKE:
            out.append((f"env:{opt}:{vl}", "parse_env", {"APP_" + opt.upper().replace(".", "__"): v}))
    docs = [("broken-json", '{"i": '), ("broken-yaml", "i: [1,\n"), ("not-mapping-list", "[1, 2]"), ("not-mapping-scalar", "abc"), ("not-mapping-almost-float", "1e"), ("not-mapping-double-minus", "--1.5"), ("not-mapping-superscript", "\u00b2"), ("empty", ""), ("null", "null"),
            ("self-alias", "l: &a [*a]\n"), ("self-alias-any", "d: &a {k: *a}\n"), ("undefined-alias", "i: *nope\n"), ("dup-anchor", "i: &a 1\nf: &a 2.0\n"), ("merge-key", "<<: {i: 2}\n"),
            ("tag", "i: !!python/object:os.system 1\n"), ("tab-indent", "g:\n\tx: 1\n"), ("bad-value", '{"i": "abc"}'), ("unknown-key", '{"zz": 1}'), ("nonstr-key", "1: 2\n"),
            ("nested-unknown", '{"g": {"zz": 1}}'), ("scalar-for-group", '{"g": 5}'), ("list-for-group", '{"g": [1]}'), ("class-bad-import", '{"model": {"class_path": "nonexistent.Mod"}}'),
            ("class-not-class", '{"model": {"class_path": "os.path"}}'), ("class-init-args-list", '{"model": {"class_path": "verif_c03mod.Sub", "init_args": [1]}}'),
            ("class-path-int", '{"model": {"class_path": 5}}'), ("class-path-typing", '{"models": [{"class_path": "typing.List"}]}'), ("dc-not-mapping", '{"dc": 5}'), ("cfg-in-cfg-missing", '{"cfg": "/nonexistent.yaml"}'),
            ("huge-int", '{"i": ' + "1" + "0" * 400 + "}"), ("float-overflow-pos", '{"pos": 1e999}'), ("unicode", '{"s": "\u00e9\u4e2d"}'), ("binary-ish", "\x00\x01"), ("deep", '{"d": ' + "{\"k\": " * 30 + "1" + "}" * 30 + "}")]
    for lab, doc in docs:
        out.append((f"string:{lab}", "parse_string", doc))
        f = os.path.join(tmp, f"doc-{lab}.yaml")
        with open(f, "w") as fh:
            fh.write(doc)
        out.append((f"path:{lab}", "parse_path", f))
        out.append((f"argv:cfg-string:{lab}", "parse_args", ["--cfg=" + doc]))
    out += [("path:missing", "parse_path", os.path.join(tmp, "missing.yaml")), ("path:directory", "parse_path", d), ("path:binary", "parse_path", binary),
            ("path:empty-name", "parse_path", ""), ("path:dash", "parse_path", "-")]
    objs = [("not-mapping-list", [1, 2]), ("not-mapping-none", None), ("not-mapping-str", "abc"), ("not-mapping-int", 5), ("nonstr-key", {1: 2}), ("unknown-key", {"zz": 1}),
            ("bad-value", {"i": "abc"}), ("bad-nested", {"g": {"x": "abc"}}), ("scalar-for-group", {"g": 5}), ("list-elements", {"l": [1, "a"]}), ("dict-values", {"d": {"k": "v"}}),
            ("object-value", {"i": object()}), ("class-bad-import", {"model": {"class_path": "nonexistent.Mod"}}), ("class-not-class", {"model": {"class_path": "os.path"}}),
            ("class-path-int", {"model": {"class_path": 5}}), ("class-instance", {"model": object()}), ("dc-not-mapping", {"dc": 5}), ("tuple-key", {("a", "b"): 1}),
            ("empty-key", {"": 1}), ("dotted-unknown", {"g.zz": 1}), ("space-key", {"a b": 1}), ("plus-key", {"i+": 1}), ("huge-int-pos", {"pos": 10 ** 400}), ("nan", {"f": float("nan")}),
            ("bytes", {"s": b"abc"}), ("set", {"l": {1, 2}}), ("enum-bad", {"e": "GREEN"}), ("path-missing", {"p": "/nonexistent/x"})]
    for lab, o in objs:
        out.append((f"object:{lab}", "parse_object", o))
    if shape == "sub":
        # a sub-command that is only NAMED, or given a section that is not a mapping / lacks the required key, parsed
        # with and without the help of defaults and environment
        secs = [("name-only", {"subcommand": "delta"}), ("empty-section", {"subcommand": "delta", "delta": {}}), ("null-section", {"subcommand": "delta", "delta": None}),
                ("optional-only", {"subcommand": "delta", "delta": {"o": 1}}), ("bad-required", {"subcommand": "delta", "delta": {"r": "abc"}}),
                ("alpha-name-only", {"subcommand": "alpha"}), ("beta-name-only", {"subcommand": "beta"}), ("beta-inner-name-only", {"subcommand": "beta", "beta": {"subcommand": "gamma"}})]
        for lab, o in secs:
            for nd in (False, True):
                sfx, opts = (":nodefaults", {"defaults": False}) if nd else ("", {})
                out.append((f"object:sub:{lab}{sfx}", "parse_object", o, opts))
                out.append((f"string:sub:{lab}{sfx}", "parse_string", json.dumps(o), opts))
                f = os.path.join(tmp, f"sub-{lab}.json")
                with open(f, "w") as fh:
                    json.dump(o, fh)
                out.append((f"path:sub:{lab}{sfx}", "parse_path", f, opts))
                out.append((f"argv:cfg-sub:{lab}{sfx}", "parse_args", ["--cfg=" + json.dumps(o)], opts))
        out.append(("argv:sub:delta-missing-required", "parse_args", ["delta"]))
        out.append(("argv:sub:delta-bad-required", "parse_args", ["delta", "--r=abc"]))
        out.append(("env:sub:delta-name-only", "parse_env", {"APP_SUBCOMMAND": "delta"}))
        # a DEFAULT CONFIG FILE of the root parser whose content for a sub-command is well- or ill-formed, with the
        # sub-command chosen through every channel
        dcfs = [("null-section", "alpha:\n"), ("empty-section", "alpha: {}\n"), ("scalar-section", "alpha: 5\n"), ("list-section", "alpha: [1]\n"), ("good-section", "alpha:\n  k: 2\n"),
                ("bad-value", "alpha:\n  k: abc\n"), ("unknown-key", "alpha:\n  zz: 1\n"), ("two-sections", "alpha:\n  k: 2\ndelta:\n  r: 1\n"), ("null-inner", "beta:\n  gamma:\n"),
                ("broken", "alpha: [1,\n"), ("not-mapping", "- 1\n"), ("empty-file", ""), ("unknown-sub", "subcommand: zz\n"), ("global-bad", "i: abc\n")]
        for dl, text in dcfs:
            opts = {"dcf": text}
            out.append((f"dcf:{dl}:argv-name", "parse_args", ["alpha"], opts))
            out.append((f"dcf:{dl}:argv-none", "parse_args", [], opts))
            out.append((f"dcf:{dl}:object-name", "parse_object", {"subcommand": "alpha"}, opts))
            out.append((f"dcf:{dl}:string-name", "parse_string", '{"subcommand": "alpha"}', opts))
            out.append((f"dcf:{dl}:cfg-name", "parse_args", ['--cfg={"subcommand": "alpha"}'], opts))
            out.append((f"dcf:{dl}:env-name", "parse_env", {"APP_SUBCOMMAND": "alpha"}, opts))
            out.append((f"dcf:{dl}:object-other", "parse_object", {"subcommand": "delta", "delta": {"r": 1}}, opts))
    return out


class _Timeout(BaseException):   # not an Exception: the library's own `except Exception` clauses must not swallow it
    pass


def _alarm(signum, frame):
    raise _Timeout()


def run_one(parser, method, payload, eoe, kw=None):
    """-> (out, usage)"""
    kw = kw or {}
    err, outb = io.StringIO(), io.StringIO()
    # the limit is 8 s of the process's own CPU time (a parse that does not terminate spins), so that a loaded machine
    # cannot turn a slow parse into a verdict; a generous wall-clock alarm backs it up for a parse that blocks
    signal.signal(signal.SIGPROF, _alarm)
    signal.signal(signal.SIGALRM, _alarm)
    signal.setitimer(signal.ITIMER_PROF, 8)
    signal.alarm(600)
    old_limit = sys.getrecursionlimit()
    try:
        with contextlib.redirect_stderr(err), contextlib.redirect_stdout(outb):
            try:
                if method == "parse_args":
                    parser.parse_args(list(payload), **kw)
                elif method == "parse_env":
                    parser.parse_env(dict(payload), **kw)
                elif method == "parse_string":
                    parser.parse_string(payload, **kw)
                elif method == "parse_path":
                    parser.parse_path(payload, **kw)
                elif method == "parse_object":
                    parser.parse_object(payload, **kw)
                out = "return"
            except SystemExit as ex:
                out = "exit0" if ex.code in (0, None) else "exit2" if ex.code == 2 else f"exit:{ex.code}"
            except _Timeout:
                out = "timeout"
            except BaseException as ex:  # noqa: B036
                from jsonargparse import ArgumentError

                out = "ArgumentError" if type(ex) is ArgumentError or isinstance(ex, ArgumentError) else "escape:" + type(ex).__name__
    finally:
        signal.setitimer(signal.ITIMER_PROF, 0)
        signal.alarm(0)
        sys.setrecursionlimit(old_limit)
    text = err.getvalue()
    return out, ("usage:" in text and "error:" in text)


def fuzz_worker(job):
    warnings.simplefilter("ignore")
    make_module()
    shape, mode, eoe = job["shape"], job["mode"], job["eoe"]
    tmp = tempfile.mkdtemp(prefix="verif-c03-")
    saved = dict(os.environ)
    cwd = os.getcwd()
    res = []
    try:
        for k in list(os.environ):
            if k.startswith("APP_") or (k.startswith("JSONARGPARSE_") and k != common.GUARD):
                del os.environ[k]
        os.chdir(tmp)
        try:
            sys.stdin.close()
        except Exception:
            pass
        sys.stdin = open(os.devnull)
        prods = productions(shape, tmp)
        for n, prod in enumerate(prods):
            label, method, payload = prod[:3]
            opts = prod[3] if len(prod) > 3 else {}
            if n % job["nparts"] != job["part"]:
                continue
            dcf = None
            if "dcf" in opts:
                dcf = os.path.join(tmp, f"defaults-{n}.yaml")
                with open(dcf, "w") as fh:
                    fh.write(opts["dcf"])
            kw = {"defaults": False} if opts.get("defaults") is False else {}
            try:
                parser = build(shape, mode, eoe, dcf=dcf)
            except Exception as ex:
                res.append({"label": label, "method": method, "out": "escape:build:" + type(ex).__name__, "usage": False, "asked0": False, "payload": repr(payload)[:200]})
                continue
            out, usage = run_one(parser, method, payload, eoe, kw)
            asked0 = method == "parse_args" and any(str(a).split("=")[0] in ("--help", "-h", "--print_config", "--model.help", "--m.help") or str(a).endswith(".help") for a in payload)
            res.append({"label": label, "method": method, "out": out, "usage": usage, "asked0": asked0, "payload": repr(payload)[:200]})
        return res
    finally:
        os.chdir(cwd)
        os.environ.clear()
        os.environ.update(saved)
        shutil.rmtree(tmp, ignore_errors=True)


# ---------------------------------------------------------------- injection
def exc_of(cls):
    import decimal

    import yaml
    import jsonargparse._namespace as _ns
    from jsonargparse._util import PathError

    class Other(Exception):
        pass

    table = {"TypeError": TypeError("injected"), "PathError": PathError("injected"), "KeyError": KeyError("injected"), "ValueError": ValueError("injected"),
             "ArgparseError": argparse.ArgumentError(None, "injected"), "Loader": yaml.YAMLError("injected"), "AttributeError": AttributeError("injected"),
             "ImportError": ImportError("injected"), "RecursionError": RecursionError("injected"), "OSError": OSError("injected"), "IndexError": IndexError("injected"),
             "AssertionError": AssertionError("injected"), "OverflowError": OverflowError("injected"), "Other": Other("injected"),
             "NSKeyError": _ns.NSKeyError("injected"), "UnicodeError": UnicodeDecodeError("utf-8", b"\xff", 0, 1, "injected"),
             "ArithmeticError": ArithmeticError("injected"), "InvalidOperation": decimal.InvalidOperation("injected")}
    return table.get(cls)


SITES = {
    # stage name (as in Failures.tla) -> how to make it fail for real
    ("parse_args", "adapt a command line value (adapt_typehints under _check_type)"): ("adapt", lambda p: p.parse_args(["--i=INJECT"])),
    ("parse_args", "adapt a Union member"): ("adapt-union", lambda p: p.parse_args(['--u=["INJECT"]'])),
    ("parse_args", "an action's __call__ outside _check_type (argparse machinery)"): ("action", lambda p: p.parse_args(["--boom=1"])),
    ("parse_args", "load the text of --cfg (load_value in _load_config_parser_mode)"): ("load", lambda p: p.parse_args(["--cfg=i: INJECT"])),
    ("parse_args", "resolve the path of --cfg (Path in apply_config)"): ("path-actions", lambda p: p.parse_args(["--cfg=INJECT.yaml"])),
    ("parse_args", "apply actions to the content of --cfg"): ("adapt", lambda p: p.parse_args(['--cfg={"i": "INJECT"}'])),
    ("parse_args", "apply parsing links"): ("link", lambda p: p.parse_args(["--i=2"])),
    ("parse_args", "validate"): ("validate", lambda p: p.parse_args(["--i=2"])),
    ("parse_object", "turn the object into a namespace (_apply_actions: Namespace(cfg))"): ("namespace", lambda p: p.parse_object({"INJECT": 1})),
    ("parse_object", "adapt a value of the object"): ("adapt", lambda p: p.parse_object({"i": "INJECT"})),
    ("parse_object", "apply parsing links"): ("link", lambda p: p.parse_object({"i": 2})),
    ("parse_object", "validate"): ("validate", lambda p: p.parse_object({"i": 2})),
    ("parse_string", "load the text (load_value in _load_config_parser_mode)"): ("load", lambda p: p.parse_string("i: INJECT")),
    ("parse_string", "adapt a value of the document"): ("adapt", lambda p: p.parse_string('{"i": "INJECT"}')),
    ("parse_string", "apply parsing links"): ("link", lambda p: p.parse_string('{"i": 2}')),
    ("parse_string", "validate"): ("validate", lambda p: p.parse_string('{"i": 2}')),
    ("parse_path", "resolve the path (Path(cfg_path) in parse_path)"): ("path-core", lambda p: p.parse_path("INJECT.yaml")),
    ("parse_path", "load the text (load_value in _load_config_parser_mode)"): ("load", lambda p: p.parse_path(p._inject_file)),
    ("parse_path", "adapt a value of the document"): ("adapt", lambda p: p.parse_path(p._inject_file2)),
    ("parse_env", "adapt the value of a variable"): ("adapt", lambda p: p.parse_env({"APP_I": "INJECT"})),
    ("parse_env", "load the config variable"): ("load", lambda p: p.parse_env({"APP_CFG": "i: INJECT"})),
    ("parse_env", "validate"): ("validate", lambda p: p.parse_env({"APP_I": "2"})),
    # routes repaired by fix: commits (4bbf74f, 02016da, 00b82b0, 4f4bba8) and the general registered-type frame
    ("parse_args", "deserialise a registered type"): ("registered", lambda p: p.parse_args(["--r=INJECT"])),
    ("parse_object", "deserialise a registered type"): ("registered", lambda p: p.parse_object({"r": "INJECT"})),
    ("parse_string", "deserialise a registered type"): ("registered", lambda p: p.parse_string('{"r": "INJECT"}')),
    ("parse_env", "deserialise a registered type"): ("registered", lambda p: p.parse_env({"APP_R": "INJECT"})),
    ("parse_args", "deserialise a decimal.Decimal"): ("decimal", lambda p: p.parse_args(["--dec=INJECT"])),
    ("parse_object", "deserialise a decimal.Decimal"): ("decimal", lambda p: p.parse_object({"dec": "INJECT"})),
    ("parse_string", "deserialise a decimal.Decimal"): ("decimal", lambda p: p.parse_string('{"dec": "INJECT"}')),
    ("parse_env", "deserialise a decimal.Decimal"): ("decimal", lambda p: p.parse_env({"APP_DEC": "INJECT"})),
    ("parse_path", "read the file (Path.get_content in parse_path)"): ("get-content", lambda p: p.parse_path(p._inject_file2)),
    ("parse_args", "read the file of --cfg (Path.get_content in parse_path)"): ("get-content", lambda p: p.parse_args(["--cfg", p._inject_file2])),
    # a failure INSIDE get_defaults while a default config file is applied; these run with exit_on_error=True, where the
    # documented channel is usage + exit status 2 (an ArgumentError exception is an escape there)
    ("parse_args", "default config file"): ("dcf", lambda p: p.parse_args([])),
    ("parse_object", "default config file"): ("dcf", lambda p: p.parse_object({})),
    ("parse_string", "default config file"): ("dcf", lambda p: p.parse_string("{}")),
    ("parse_env", "default config file"): ("dcf", lambda p: p.parse_env({})),
    ("parse_args", "settings of a sub-command that are not a mapping (_subcommand_settings, _check_value_key)"): ("natural:TypeError", lambda p: p.parse_args(['--cfg={"subcommand": "alpha", "alpha": 5}'])),
    ("parse_object", "settings of a sub-command that are not a mapping (_subcommand_settings, _check_value_key)"): ("natural:TypeError", lambda p: p.parse_object({"subcommand": "alpha", "alpha": 5})),
    ("parse_string", "settings of a sub-command that are not a mapping (_subcommand_settings, _check_value_key)"): ("natural:TypeError", lambda p: p.parse_string('{"subcommand": "alpha", "alpha": [1]}')),
    # NATURAL sites: nothing is patched, the input itself makes the stage raise the one class named
    ("parse_args", "convert an int to float (float(val) in the leaf branch)"): ("natural:OverflowError", lambda p: p.parse_args(["--f=1" + "0" * 400])),
    ("parse_object", "convert an int to float (float(val) in the leaf branch)"): ("natural:OverflowError", lambda p: p.parse_object({"f": 10 ** 400})),
    ("parse_string", "convert an int to float (float(val) in the leaf branch)"): ("natural:OverflowError", lambda p: p.parse_string('{"f": 1' + "0" * 400 + "}")),
    ("parse_args", "select the sub-command named in a config (get_subcommands)"): ("natural:NSKeyError", lambda p: p.parse_args(['--cfg={"subcommand": "zz"}'])),
    ("parse_object", "select the sub-command named in a config (get_subcommands)"): ("natural:NSKeyError", lambda p: p.parse_object({"subcommand": "zz"})),
    ("parse_string", "select the sub-command named in a config (get_subcommands)"): ("natural:NSKeyError", lambda p: p.parse_string('{"subcommand": "zz"}')),
}


def site_applies(method, stage, cls):
    """an injection site exists for this row (a natural site makes the stage raise ONE class only)"""
    if (method, stage) not in SITES or cls == "SystemExit":
        return False
    how = SITES[(method, stage)][0]
    return not how.startswith("natural:") or how == "natural:" + cls


def inject_worker(job):
    """raise `cls` at the stage while the real parse method runs; -> 'channel' | 'return' | 'escape' (+ class)"""
    warnings.simplefilter("ignore")
    from typing import List, Union

    import jsonargparse._actions as _actions
    import jsonargparse._core as _core
    import jsonargparse._typehints as _th
    from jsonargparse import ActionConfigFile, ArgumentError, ArgumentParser

    method, stage, cls = job["method"], job["stage"], job["cls"]
    how, call = SITES[(method, stage)]
    ex = exc_of(cls)
    tmp = tempfile.mkdtemp(prefix="verif-c03i-")
    undo = []

    def patch(mod, name, new):
        old = getattr(mod, name)
        setattr(mod, name, new)
        undo.append((mod, name, old))

    try:
        dcf_file = None
        if how == "dcf":
            dcf_file = os.path.join(tmp, "defaults.yaml")
            with open(dcf_file, "w") as fh:
                fh.write("j: 5\n")
        p = ArgumentParser(exit_on_error=(how == "dcf"), env_prefix="APP", default_config_files=[dcf_file] if dcf_file else None)
        p.add_argument("--cfg", action=ActionConfigFile)
        p.add_argument("--i", type=int, default=1)
        p.add_argument("--u", type=Union[int, List[str]], default=1)
        p.add_argument("--j", type=int, default=0)
        p.add_argument("--f", type=float, default=1.0)
        if how in ("natural:NSKeyError", "natural:TypeError"):
            sc = p.add_subcommands(required=False)
            sa = ArgumentParser()
            sa.add_argument("--k", type=int, default=1)
            sc.add_subcommand("alpha", sa)
        f1 = os.path.join(tmp, "inj.yaml")
        with open(f1, "w") as fh:
            fh.write("i: INJECT\n")
        f2 = os.path.join(tmp, "inj2.yaml")
        with open(f2, "w") as fh:
            fh.write('{"i": "INJECT"}\n')
        p._inject_file, p._inject_file2 = f1, f2
        if how in ("adapt", "adapt-union"):
            real = _th.adapt_typehints

            def fake(val, typehint, *a, **k):
                if val == "INJECT" and (how == "adapt" or typehint is str):
                    raise ex
                return real(val, typehint, *a, **k)

            patch(_th, "adapt_typehints", fake)
        elif how == "action":
            class Boom(argparse.Action):
                def __call__(self, *a, **k):
                    raise ex

            p.add_argument("--boom", action=Boom)
        elif how == "load":
            real = _core.load_value

            def fake(value, *a, **k):
                if isinstance(value, str) and "INJECT" in value:
                    raise ex
                return real(value, *a, **k)

            patch(_core, "load_value", fake)
        elif how in ("path-actions", "path-core"):
            mod = _actions if how == "path-actions" else _core
            real = mod.Path

            def fake(path, *a, **k):
                if isinstance(path, str) and "INJECT" in path:
                    raise ex
                return real(path, *a, **k)

            patch(mod, "Path", fake)
        elif how == "registered":
            import jsonargparse.typing as _typing

            class Inj:
                def __init__(self, v):
                    if v == "INJECT":
                        raise ex
                    self.v = v

            _typing.register_type(Inj)  # default deserializer_exceptions
            undo.append((None, Inj, None))
            p.add_argument("--r", type=Inj, default=None)
        elif how == "decimal":
            import decimal

            import jsonargparse.typing as _typing

            p.add_argument("--dec", type=decimal.Decimal, default=decimal.Decimal(1))
            handler = _typing.get_registered_type(decimal.Decimal)
            real = handler.base_deserializer  # what RegisteredType.deserializer calls inside its own `except`

            def fake(v):
                if v == "INJECT":
                    raise ex
                return real(v)

            patch(handler, "base_deserializer", fake)
        elif how == "get-content":
            real = _core.Path.get_content

            def fake(self, *a, **k):
                if "inj" in os.path.basename(str(self)):
                    raise ex
                return real(self, *a, **k)

            patch(_core.Path, "get_content", fake)
        elif how == "dcf":
            real = _core.ArgumentParser._parse_common

            def fake(self, *a, **k):
                if k.get("skip_required") is True and k.get("env") is False and k.get("defaults") is False:  # the call made by get_defaults
                    raise ex
                return real(self, *a, **k)

            patch(_core.ArgumentParser, "_parse_common", fake)
        elif how.startswith("natural:"):
            pass
        elif how == "link":
            def fn(v):
                raise ex

            p.link_arguments("i", "j", compute_fn=fn)
        elif how == "validate":
            real = _core.ArgumentParser.validate

            def fake(self, *a, **k):
                raise ex

            patch(_core.ArgumentParser, "validate", fake)
        elif how == "namespace":
            real = _core.Namespace

            class FakeNS(real):
                def __init__(self, *a, **k):
                    if a and isinstance(a[0], dict) and "INJECT" in a[0]:
                        raise ex
                    super().__init__(*a, **k)

            patch(_core, "Namespace", FakeNS)
        err = io.StringIO()
        try:
            with contextlib.redirect_stderr(err), contextlib.redirect_stdout(io.StringIO()):
                call(p)
            out, detail = "return", ""
        except ArgumentError:
            out, detail = ("escape", "ArgumentError under exit_on_error=True") if how == "dcf" else ("channel", "")
        except SystemExit as e:
            if how == "dcf" and e.code == 2 and "usage:" in err.getvalue() and "error:" in err.getvalue():
                out, detail = "channel", ""  # exit_on_error=True: usage text + exit status 2 IS the documented channel
            else:
                out, detail = "escape", f"SystemExit({e.code})"
        except BaseException as e:  # noqa: B036
            out, detail = "escape", type(e).__name__
        return {"method": method, "stage": stage, "cls": cls, "out": out, "detail": detail}
    finally:
        for mod, name, old in reversed(undo):
            if mod is None:
                import jsonargparse.typing as _typing

                _typing.registered_type_handlers.pop(name, None)
            else:
                setattr(mod, name, old)
        shutil.rmtree(tmp, ignore_errors=True)


def main(argv):
    tier = "thorough" if (argv and argv[0] == "thorough") else "quick"
    rep = Report(PID, tier)
    rep.assumptions = [
        "injection patches collaborators (adapt_typehints, load_value, Path, validate, a link's compute_fn, a custom argparse action) from the harness process; the parse methods and their handlers run unmodified",
        "an input 'asks for exit 0' when argv contains --help / --print_config / a class help option; exit 0 is accepted only then",
        "exit_on_error=True must give exit status 2 with a usage text and an 'error:' line on stderr; wording is not compared",
        "stdin is closed; each parse is limited to 8 s of CPU time (a parse that does not terminate is reported as 'timeout')",
    ]
    mc = tlc.run("MC_Failures", "MC_Failures", workers=8, timeout=600, heap="4g")
    rep.add_tlc("MC_Failures", mc)
    if mc.errors:
        if mc.violated:
            rep.violation("model:" + ",".join(mc.violated), f"TLC: {mc.violated} violated in MC_Failures (an anticipated class is not protected, or a conversion does not land)", {"tlc_errors": mc.errors, "cex": mc.cex[:3000]})
            return rep.finish()
        machinery_failure(PID, "TLC failed on MC_Failures:\n" + mc.stdout[-3000:])
    rows = [p for p in mc.printed if isinstance(p, dict) and "comes" in p]
    if len(rows) != mc.distinct:
        machinery_failure(PID, f"lattice rows {len(rows)} != states {mc.distinct}")
    rep.extra["lattice_rows"] = len(rows)
    rep.extra["lattice_protected_rows"] = sum(1 for r in rows if r["comes"] in ("error", "swallowed"))

    # ---- REPLAY: injection
    jobs = [{"method": r["method"], "stage": r["stage"], "cls": r["cls"], "frames": r["frames"], "comes": r["comes"]} for r in rows
            if site_applies(r["method"], r["stage"], r["cls"])]
    jobs.sort(key=lambda j: (j["method"], j["stage"], j["cls"]))
    inj = pipeline.run_many(inject_worker, jobs, chunksize=4)
    rep.extra["injected_routes"] = len(jobs)
    rep.extra["stages_without_injection_site"] = sorted({f"{r['method']}: {r['stage']}" for r in rows if (r["method"], r["stage"]) not in SITES})

    # ---- TRACE: fuzz
    shapes = ["basic", "sub"]
    modes = ["yaml", "json", "jsonnet"] if tier == "thorough" else ["yaml", "json"]
    fjobs = []
    nparts = 4
    for shape in shapes:
        for mode in modes:
            for eoe in (False, True):
                for part in range(nparts):
                    fjobs.append({"shape": shape, "mode": mode, "eoe": eoe, "part": part, "nparts": nparts})
    fres = pipeline.run_many(fuzz_worker, fjobs, chunksize=1)
    obs = []
    for j, res in zip(fjobs, fres):
        for r in res:
            obs.append({**r, "shape": j["shape"], "mode": j["mode"], "eoe": j["eoe"]})
    tmp = common.scratch("c03")
    try:
        f = tmp / "trace.json"
        f.write_text(json.dumps({"obs": [{"eoe": o["eoe"], "asked0": o["asked0"], "out": o["out"], "usage": o["usage"]} for o in obs],
                                 "inj": [{"method": j["method"], "frames": j["frames"], "cls": j["cls"], "out": r["out"]} for j, r in zip(jobs, inj)]}))
        tr = tlc.run("Trace_Failures", "Trace_Failures", workers=16, env={"TRACE_FILE": str(f)}, timeout=1200, heap="8g")
        rep.add_tlc("Trace_Failures", tr)
        if tr.errors or tr.distinct != len(obs) + len(jobs):
            machinery_failure(PID, f"trace validation failed (distinct={tr.distinct}, expected {len(obs) + len(jobs)}):\n" + tr.stdout[-3000:])
        for p in tr.printed:
            if not (isinstance(p, list) and p and p[0] == "R"):
                continue
            if p[1] == "obs":
                o = obs[p[2] - 1]
                key = f"{o['method']}:{o['out']}:{_generalise(o['label'])}" + (":eoe" if o["eoe"] and o["out"] in ("ArgumentError", "exit2") else "")
                rep.violation(key, f"{o['method']} on input '{o['label']}' (shape {o['shape']}, mode {o['mode']}, exit_on_error={o['eoe']}) came out as {o['out']}"
                              + ("" if o["usage"] or not o["eoe"] else " without usage/error text"), {"observation": o})
            else:
                j, r = jobs[p[2] - 1], inj[p[2] - 1]
                case = {"method": j["method"], "stage": j["stage"], "class": j["cls"], "frames": j["frames"], "lattice_says": j["comes"], "observed": r["out"], "detail": r["detail"]}
                if p[3] == "protected-route-escapes":
                    rep.violation(f"inj:{j['method']}:{j['stage'][:40]}:{j['cls']}", f"{j['cls']} raised at stage '{j['stage']}' of {j['method']} is not converted to the documented channel ({r['out']} {r['detail']})", case)
                else:
                    rep.add_drift("injection: the real code converts / swallows a class the lattice lets escape (or returns)", case)
    finally:
        common.rm(tmp)
    rep.traces = len(obs) + len(jobs)
    rep.evaluations = rep.traces
    for o in obs:
        if o["out"] != "return":
            rep.note_nontrivial(f"{o['method']}|{o['label']}|{o['shape']}|{o['mode']}|{o['eoe']}")
    for j in jobs:
        rep.note_nontrivial(f"inj|{j['method']}|{j['stage']}|{j['cls']}")
    rep.extra["fuzz_outcomes"] = _count(o["out"] for o in obs)
    rep.extra["fuzz_parses"] = len(obs)
    rep.rule = ("cases = fuzzed (method, labelled input, shape, mode, exit_on_error) parses + injected (method, stage, class) routes; non-trivial & distinct = distinct fuzz cases "
                "that do not simply return, plus every injected route")
    rep.exhaustive = False
    rep.explanation = (f"lattice of {len(rows)} (method, stage, class) rows checked by TLC; {len(jobs)} rows injected into the real code and validated against Propagate; "
                       f"{len(obs)} fuzzed parses validated against ChannelOK (exhaustive only w.r.t. the labelled grammar, which is a sample of the input space)")
    for o in obs[:: max(1, len(obs) // 4)][:4]:
        rep.sample({"fuzz": o})
    for j, r in list(zip(jobs, inj))[:: max(1, len(jobs) // 3)][:3]:
        rep.sample({"injection": {"method": j["method"], "stage": j["stage"], "class": j["cls"], "lattice_says": j["comes"], "observed": r["out"]}})
    return rep.finish()


def _generalise(label):
    """the input class without the option it was applied to, so that one defect has one key"""
    parts = label.split(":")
    if parts[0] in ("argv", "env", "string", "object") and len(parts) == 3 and parts[1] in _OPTKINDS:
        return f"{parts[0]}:{_optkind(parts[1])}:{parts[2]}"
    return label


def _optkind(opt):
    return _OPTKINDS.get(opt, opt)


_OPTKINDS = {"fn": "callable", "cb": "callable", "ty": "type", "req": "class", "dec": "decimal", "tup": "tuple", "st": "set", "lit": "literal", "any": "any", "dl": "dict",
             "i": "scalar", "f": "scalar", "b": "scalar", "pos": "scalar", "e": "enum", "s": "optstr", "l": "list", "d": "dict", "u": "union", "p": "path", "dc": "dataclass",
            "model": "class", "models": "classlist", "g.x": "scalar", "g.y.z": "optint", "flag": "yesno", "cfg": "cfg"}


def _count(it):
    d = {}
    for x in it:
        d[x] = d.get(x, 0) + 1
    return d


if __name__ == "__main__":
    args = sys.argv[1:]
    if args and args[0] == "--replay":
        print(open(args[1]).read())
        sys.exit(0)
    sys.exit(main(args))
