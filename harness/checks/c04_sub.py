"""C04 below a sub-command (spec/SubSources.tla): the sources of an option that belongs to a sub-command.

  MC      tlc MC_SubSources: every combination of sub-parser default config file, section `a:` of the root default
          config file, environment (APP_A__X / APP_A__L), --cfg sections given before the sub-command name, and the
          sub-parser's own --cfg / options after it; invariants AlgRefinesRef (modulo the named deviations),
          SubOnlyIsRef, SetOnlyIsRef, LastWins.  Every case is emitted with the set of documented outcomes (the order
          between the two default config files is not documented), the staged algorithm's outcome and the deviation.
  REPLAY  every emitted case is rendered (files, os.environ, argv) and run on a real parser tree.
  TRACE   seeded random cases beyond the bounds (longer command lines, documents with both keys, dotted / nested
          spellings, --cfg as file or string) validated by TLC against Trace_SubSources.
"""
from __future__ import annotations

import json
import os
import shutil
import tempfile

from ..lib import common, pipeline, tlc
from ..lib.evidence import machinery_failure

PID = "C04"
DEV_TEXT = {
    "root-doc-append": "a 'l+' inside the section of a sub-command in a ROOT-level document (--cfg before the sub-command name, root default config file) does not extend the "
                       "value the sub-command's --l has at that point: apply_appends looks the previous value up under the bare dest `l` in the ROOT namespace, so it extends the "
                       "root parser's own --l when there is one ([7, 2] instead of [0, 2]) and otherwise starts from nothing ([2])",
    "dcf-over-env": "the section of a sub-command in the root parser's default config file is not overridden by that sub-command's environment variables (C17 finding "
                    "dcf:subcommand-settings seen from C04): the keys of the file's section stay in the ROOT namespace, and what was collected there is merged OVER the "
                    "sub-parser's own defaults+environment when the sub-command is reached",
}
DEV_TEXT["root-doc-append+dcf-over-env"] = DEV_TEXT["root-doc-append"] + " -- together with: " + DEV_TEXT["dcf-over-env"]
DEV_TEXT["dcf-section-pruned"] = ("a root default config file with sections for SEVERAL sub-commands keeps only the section of the first DECLARED one when it is loaded (get_defaults parses it in the "
                                  "single-sub-command mode); a later-declared sub-command that is NAMED on the command line gets none of the values the file holds for it (a.x = 0 instead of 8), "
                                  "while the same sub-command selected by a config reads them through the parent lookup of handle_subcommands")
DEV_TEXT["dcf-section-pruned+root-doc-append"] = DEV_TEXT["dcf-section-pruned"] + " -- together with: " + DEV_TEXT["root-doc-append"]
DEV_TEXT["dcf-dotted-section-not-looked-up"] = ("the same file (sections for several sub-commands, `a` not the first declared) spelled with DOTTED keys ('a.x': 8): a sub-command selected by a config "
                                                "does not get its values back either, because the parent lookup of the sub-parser takes the mapping under the key 'a' of the document and a "
                                                "dotted-key document has none (a.x = 0, the nested spelling of the same file gives 8)")
DEV_TEXT["dcf-dotted-section-not-looked-up+root-doc-append"] = DEV_TEXT["dcf-dotted-section-not-looked-up"] + " -- together with: " + DEV_TEXT["root-doc-append"]


def doc_obj(asgs, dotted):
    """assignments to a.x / a.l -> the mapping a user writes at the ROOT level (section `a:`)"""
    inner = sub_doc(asgs)
    if dotted:
        return {"a." + k: v for k, v in inner.items()}
    return {"a": inner}


def sub_doc(asgs):
    out = {}
    for a in asgs:
        key = a["k"] + ("+" if a["op"] == "app" else "")
        out[key] = a["v"][0] if a["k"] == "x" else list(a["v"])
    return out


def run_sub_case(case):
    """-> {"ok": {"x": [..], "l": [..]}} | {"err": text, "cls": name}"""
    from typing import List

    from jsonargparse import ActionConfigFile, ArgumentError, ArgumentParser

    s, variant = case["s"], case.get("variant", 0)
    tmp = tempfile.mkdtemp(prefix="verif-sub-")
    saved_env, saved_cwd = dict(os.environ), os.getcwd()
    try:
        for k in list(os.environ):
            if k.startswith("APP_") or (k.startswith("JSONARGPARSE_") and k != common.GUARD):
                del os.environ[k]
        os.chdir(tmp)
        dotted = s["dotted"] == "yes" if s.get("dotted") in ("yes", "no") else variant % 2 == 1   # "any": the renderer chooses
        dcf = sdcf = None
        root_doc = None
        if s["dcf"] or s.get("other"):
            root_doc = doc_obj(s["dcf"], dotted) if s["dcf"] else {}
            if s.get("other"):   # the file also holds a section for the OTHER sub-command
                root_doc.update({"b.y": 77} if dotted else {"b": {"y": 77}})
            dcf = os.path.join(tmp, "root-defaults.json")
            with open(dcf, "w") as fh:
                json.dump(root_doc, fh)
        if s["sdcf"]:
            sdcf = os.path.join(tmp, "sub-defaults.json")
            with open(sdcf, "w") as fh:
                json.dump(sub_doc(s["sdcf"]), fh)
        env = {}
        for a in s["env"]:
            env["APP_A__" + a["k"].upper()] = str(a["v"][0]) if a["k"] == "x" else json.dumps(list(a["v"]))
        os.environ.update(env)
        root = ArgumentParser(exit_on_error=False, env_prefix="APP", default_env=True, default_config_files=[dcf] if dcf else None)
        root.add_argument("--cfg", action=ActionConfigFile)
        if s["rootl"]:
            root.add_argument("--l", type=List[int], default=[7])
        sc = root.add_subcommands(required=True)
        pa = ArgumentParser(exit_on_error=False, default_config_files=[sdcf] if sdcf else None)
        pa.add_argument("--cfg", action=ActionConfigFile)
        pa.add_argument("--x", type=int, default=0)
        pa.add_argument("--l", type=List[int], default=[0])
        pb = ArgumentParser(exit_on_error=False)
        pb.add_argument("--y", type=int, default=0)
        for name, sub_parser in ((("a", pa), ("b", pb)) if s.get("first", True) else (("b", pb), ("a", pa))):   # declaration order
            sc.add_subcommand(name, sub_parser)
        argv = []
        nfile = 0
        sel = s.get("sel", "name")
        if sel == "key":
            argv.append('--cfg={"subcommand": "a"}')
        for d in s["pre"]:
            text = json.dumps(doc_obj(d, dotted))
            if variant % 3 == 2:
                nfile += 1
                f = os.path.join(tmp, f"pre{nfile}.json")
                with open(f, "w") as fh:
                    fh.write(text)
                argv += ["--cfg", f]
            else:
                argv.append("--cfg=" + text)
        if sel == "name":
            argv.append("a")
        for it in s["post"]:
            if it["kind"] == "cfg":
                text = json.dumps(sub_doc(it["asgs"]))
                if variant % 3 == 1:
                    nfile += 1
                    f = os.path.join(tmp, f"post{nfile}.json")
                    with open(f, "w") as fh:
                        fh.write(text)
                    argv += ["--cfg", f]
                else:
                    argv.append("--cfg=" + text)
            else:
                a = it["asgs"][0]
                name = "--" + a["k"] + ("+" if a["op"] == "app" else "")
                val = str(a["v"][0]) if (a["k"] == "x" or a["op"] == "app") else json.dumps(list(a["v"]))
                argv += [name + "=" + val] if variant % 2 == 0 else [name, val]
        call = {"argv": [x if not x.startswith(tmp) else "<tmp>/" + os.path.basename(x) for x in argv], "env": env,
                "root_default_config_file": root_doc, "sub_default_config_file": sub_doc(s["sdcf"]) if s["sdcf"] else None,
                "root_has_l": s["rootl"], "declared": ["a", "b"] if s.get("first", True) else ["b", "a"]}
        try:
            cfg = root.parse_args(argv)
        except ArgumentError as ex:
            return {"err": str(ex)[:300], "cls": "ArgumentError", "call": call}
        except SystemExit as ex:
            return {"err": f"exit {ex.code}", "cls": "SystemExit", "call": call}
        except Exception as ex:  # noqa: BLE001
            return {"err": f"{type(ex).__name__}: {ex}"[:300], "cls": type(ex).__name__, "call": call}
        x, lst = cfg.get("a.x"), cfg.get("a.l")
        ok = {"x": [x] if isinstance(x, int) and not isinstance(x, bool) else [99997],
              "l": list(lst) if isinstance(lst, list) and all(isinstance(v, int) for v in lst) else [99997]}
        if cfg.get("subcommand") != "a":
            ok["x"] = [99996]
        return {"ok": ok, "call": call}
    finally:
        os.chdir(saved_cwd)
        os.environ.clear()
        os.environ.update(saved_env)
        shutil.rmtree(tmp, ignore_errors=True)


def history(s):
    """which kinds of sources a case has (the key material of a violation outside the named deviations)"""
    parts = []
    for name in ("sdcf", "dcf", "env"):
        if s[name]:
            parts.append(name + ":" + "+".join(sorted({a["k"] + ("+" if a["op"] == "app" else "") for a in s[name]})))
    if s["pre"]:
        parts.append("pre:" + "|".join("+".join(sorted(a["k"] + ("+" if a["op"] == "app" else "") for a in d)) for d in s["pre"]))
    if s["post"]:
        parts.append("post:" + "|".join(it["kind"] + ":" + "+".join(sorted(a["k"] + ("+" if a["op"] == "app" else "") for a in it["asgs"])) for it in s["post"]))
    return (("rootl," if s["rootl"] else "") + ("" if s.get("sel", "name") == "name" else "by-" + s["sel"] + ",") + ("" if s.get("first", True) else "second,")
            + ("other-section," if s.get("other") else "") + ",".join(parts))


def random_case(rnd):
    def doc(tag, allow_empty=False):
        r = rnd.random()
        if allow_empty and r < 0.35:
            return []
        out = []
        if rnd.random() < 0.6:
            out.append({"k": "x", "op": "set", "v": [tag]})
        if rnd.random() < 0.7 or not out:
            out.append({"k": "l", "op": rnd.choice(["set", "app", "app"]), "v": [tag] if rnd.random() < 0.7 else [tag, tag + 100]})
        return out

    env = []
    if rnd.random() < 0.4:
        env.append({"k": "x", "op": "set", "v": [6]})
    if rnd.random() < 0.4:
        env.append({"k": "l", "op": "set", "v": [6] if rnd.random() < 0.6 else [6, 106]})
    pre = [doc(20 + j) for j in range(1, rnd.choice([0, 0, 1, 1, 2, 3]) + 1)]
    post = []
    for j in range(1, rnd.choice([0, 1, 2, 3, 4]) + 1):
        t = 30 + j
        if rnd.random() < 0.4:
            post.append({"kind": "cfg", "asgs": doc(t)})
        else:
            k = rnd.choice(["x", "l", "l"])
            post.append({"kind": "opt", "asgs": [{"k": k, "op": "set" if k == "x" else rnd.choice(["set", "app"]), "v": [t]}]})
    dcf = doc(8, True)
    first, other = rnd.random() < 0.5, bool(dcf) and rnd.random() < 0.4
    sel = "name"
    if not post and rnd.random() < 0.5:
        sel = "key" if rnd.random() < 0.5 else ("section" if (dcf or pre) and not other else "name")
    return {"rootl": rnd.random() < 0.5, "sdcf": doc(9, True), "dcf": dcf, "env": env, "pre": pre, "post": post, "sel": sel, "first": first, "other": other,
            "dotted": rnd.choice(["yes", "no"])}


def run(rep, tier, rnd):
    cfgname = f"MC_SubSources_{tier}"
    mc = tlc.run("MC_SubSources", cfgname, workers=16, timeout=2400, heap="12g")
    rep.add_tlc(cfgname, mc)
    if mc.errors:
        if mc.violated:
            rep.violation("model:sub:" + ",".join(mc.violated), f"TLC: {mc.violated} violated in MC_SubSources: the staged algorithm leaves the documented order outside the named deviations",
                          {"tlc_errors": mc.errors, "counterexample": mc.cex[:6000]})
            return
        machinery_failure(PID, f"TLC failed on {cfgname}:\n" + mc.stdout[-3000:])
    got = [p for p in mc.printed if isinstance(p, dict) and "s" in p and "dev" in p and "rootl" in p["s"]]
    if len(got) != mc.init_states or not got:
        machinery_failure(PID, f"{cfgname}: emitted {len(got)} cases for {mc.init_states} initial states")
    got.sort(key=lambda c: json.dumps(c["s"], sort_keys=True))
    # the rendering variant is a digest of the case (a counter over the sorted cases correlates with the case's fields)
    import hashlib
    cases = [{"s": c["s"], "ref": c["ref"], "alg": c["alg"], "dev": c["dev"],
              "variant": hashlib.blake2b(json.dumps(c["s"], sort_keys=True).encode(), digest_size=2).digest()[0] % 6} for c in got]
    if not {"none", "root-doc-append", "dcf-over-env", "dcf-section-pruned"} <= {c["dev"] for c in cases}:
        machinery_failure(PID, f"vacuity: deviations in MC_SubSources: {sorted({c['dev'] for c in cases})}")
    rep.extra["sub_model_cases"] = len(cases)
    rep.extra["sub_model_cases_by_deviation"] = {d: sum(1 for c in cases if c["dev"] == d) for d in sorted({c["dev"] for c in cases})}
    results = pipeline.run_many(run_sub_case, cases)
    for c, r in zip(cases, results):
        rep.traces += 1
        judge(rep, c["s"], r, c["ref"], c["alg"], c["dev"], "model")
    rep.sample({"sub_command_case": cases[len(cases) // 2]["s"], "call": results[len(cases) // 2].get("call"), "documented": cases[len(cases) // 2]["ref"],
                "observed": results[len(cases) // 2].get("ok", results[len(cases) // 2].get("err"))})

    # ---- TRACE: random cases beyond the bounds, validated by TLC
    ntr = 800 if tier == "quick" else 12000
    rcases = [{"s": random_case(rnd), "variant": rnd.randint(0, 5)} for _ in range(ntr)]
    rres = pipeline.run_many(run_sub_case, rcases)
    oks = [(c, r) for c, r in zip(rcases, rres) if "ok" in r]
    for c, r in zip(rcases, rres):
        if "err" in r:
            rep.violation(f"sub-command:rejected:{r['cls']}:{history(c['s'])}"[:150], f"a valid combination of sources of a sub-command's options was rejected: {r['err']}", {"case": c["s"], "call": r.get("call")})
    tmp = common.scratch("c04sub")
    try:
        f = tmp / "cases.json"
        f.write_text(json.dumps([{"s": c["s"], "obs": r["ok"]} for c, r in oks]))
        tr = tlc.run("Trace_SubSources", "Trace_SubSources", workers=16, env={"TRACE_FILE": str(f)}, timeout=2400, heap="8g")
        rep.add_tlc("Trace_SubSources", tr)
        if tr.errors or tr.distinct != len(oks):
            machinery_failure(PID, f"trace validation (sub-command sources) failed (distinct={tr.distinct}, expected {len(oks)}):\n" + tr.stdout[-3000:])
        rej = {}
        for p in tr.printed:
            if isinstance(p, list) and p and p[0] == "R":
                rej.setdefault(p[2], []).append(p[3])
        for idx, clauses in sorted(rej.items()):
            c, r = oks[idx - 1]
            case = {"source": c["s"], "observed": r["ok"], "call": r.get("call"), "failed_clauses": clauses, "variant": c["variant"]}
            dev = next((cl[len("ref-dev-as-alg:"):] for cl in clauses if cl.startswith("ref-dev-as-alg:")), None)
            if dev:
                rep.violation("sub-command:" + dev, DEV_TEXT[dev], case)
            elif "ref" in clauses:
                rep.violation(f"sub-command:random:{history(c['s'])}"[:150], "final value of a sub-command's option is not what the documented order of the sources gives", case)
            else:
                rep.add_drift("sub-command sources, random: real code = documented order but not the staged Alg", case)
        rep.traces += len(oks)
        for c, r in oks:
            if r["ok"] != {"x": [0], "l": [0]}:
                rep.note_nontrivial("sub:" + json.dumps(c["s"], sort_keys=True))
    finally:
        common.rm(tmp)
    rep.extra["sub_random_cases"] = len(oks)


def judge(rep, s, r, ref, alg, dev, origin):
    if "err" in r:
        rep.violation(f"sub-command:rejected:{r['cls']}:{history(s)}"[:150], f"a valid combination of sources of a sub-command's options was rejected: {r['err']}", {"case": s, "call": r.get("call")})
        return
    obs = r["ok"]
    if obs != {"x": [0], "l": [0]}:
        rep.note_nontrivial("sub:" + json.dumps(s, sort_keys=True))
    case = {"source": s, "documented_outcomes": ref, "staged_algorithm": alg, "observed": obs, "call": r.get("call")}
    if obs not in ref:
        if dev not in ("none", "unnamed") and obs == alg:
            rep.violation("sub-command:" + dev, DEV_TEXT[dev], case)
        else:
            rep.violation(f"sub-command:{origin}:{history(s)}"[:150], f"final a.x / a.l = {obs}, the documented order of the sources gives {ref}", case)
    elif obs != alg:
        rep.add_drift("sub-command sources: real code = documented order but not the staged Alg", case)
