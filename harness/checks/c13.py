"""C13 — parameters resolved through **kwargs are exactly those the code accepts.

  MC      tlc MC_Resolver: every program of the grammar up to the bounds (classes with single / multiple / diamond
          inheritance, __init__ with named parameters and **kwargs forwarded in one of the documented ways, helper
          function chains); one invariant with the laws of the reference (Python's call semantics) and
          "Alg (the resolver transcribed) offers exactly the legal parameters outside the named deviations";
          prints the programs selected for the replay together with what the specification expects of them.
  REPLAY  (spec -> code) every printed program is written to a real source file in a scratch package, imported, and
          compared three ways: (1) the spec's model of Python against THE INTERPRETER (every keyword subset is passed
          to the real class / function; acceptance and the place each keyword is bound are compared) - a mismatch is a
          machinery failure, never blamed on jsonargparse; (2) get_signature_parameters and
          parser.add_class_arguments / add_function_arguments against the legal parameters (names, type, default,
          owner); (3) parsing a value for every offered parameter and instantiating must not raise and must deliver
          each value to the signature the specification names.
          (round 4) programs with a second use of **kwargs under an if (run-time test: every call is made for both
          values of the test; module-global test: the value is fixed in the source) and pre-filled stored dicts come
          from the MC_Resolver_*_alt instances and from the random programs.
  TRACE   (code -> spec) seeded random programs beyond TLC's bounds (depth <= 5, more names, parameters, pops,
          hard-coded names, free types / defaults) are observed the same way, every class and helper being a
          component; TLC validates all recorded observations against Trace_Resolver (Ref: verdict, Alg: drift).
"""
from __future__ import annotations

import importlib
import inspect
import itertools
import json
import linecache
import multiprocessing as mp
import os
import sys
import typing

from ..lib import common, tlc
from ..lib.evidence import Report, machinery_failure

common.check_repo_import()
from jsonargparse import ArgumentParser  # noqa: E402
from jsonargparse import _parameter_resolvers as _pr  # noqa: E402

PID = "C13"
NPROC = min(16, os.cpu_count() or 4)


# ---------------------------------------------------------------- gamma: abstract program -> real source file
def pop_default_kind(fw, n):
    """"expr": the default of this pop/get is not a literal (the outer one of an alias), else "dflt" """
    return "expr" if (fw.get("qpos") == "alias" and fw["q"] and n == fw["q"][0]) else "dflt"


def decl_list(prog, fn_chain=None):
    """every declaration of the program, in a fixed order: (owner, name, t, d)"""
    out = []

    def chain_decls(chain, cid, first=1):
        for j, s in enumerate(chain, first):
            for p in s["ps"]:
                out.append((f"F{cid}.{j}", p["n"], p["t"], p["d"]))
            if s["kw"]:
                for n in s["fw"]["q"]:
                    out.append((f"Q{cid}.{j}", n, "none", pop_default_kind(s["fw"], n)))
                if j < 4:  # (round 4) the function of a second use is number 4 of the def's helpers
                    chain_decls(s["fw"].get("alt") or [], cid, 4)

    if fn_chain:
        chain_decls(fn_chain, 0)
    for c, cl in enumerate(prog["classes"], 1):
        i = cl["init"]
        if i["has"]:
            for p in i["ps"]:
                out.append((f"C{c}", p["n"], p["t"], p["d"]))
            if i["kw"]:
                for n in i["fw"]["q"]:
                    out.append((f"P{c}", n, "none", pop_default_kind(i["fw"], n)))
                chain_decls(i["fw"]["chain"], c)
                chain_decls(i["fw"].get("alt") or [], c, 4)
        if cl["m"]["has"]:
            for p in cl["m"]["ps"]:
                out.append((f"M{c}", p["n"], p["t"], p["d"]))
    return out


def default_values(decls):
    """a default value per declaration, unique in the program, so that a default identifies its signature"""
    vals = {}
    for k, (o, n, t, d) in enumerate(decls):
        if d != "dflt":
            continue
        if t == "int" or (t == "none" and k % 2 == 0):
            vals[(o, n)] = 100 + k
        else:
            vals[(o, n)] = f"{o}:{n}"
    return vals


def _params_src(ps, owner, vals, first=None):
    items = [first] if first else []
    for p in ps:
        s = p["n"]
        if p["t"] in ("int", "str"):
            s += ": " + p["t"]
        if p["d"] == "dflt":
            s += (" = " if p["t"] in ("int", "str") else "=") + repr(vals[(owner, p["n"])])
        items.append(s)
    return items


def _body_src(sig, owner, popowner, vals, call, ind, attr=None):
    """body of a def: record what arrived, pop/get, forward.  `_peek` / `_keep` / `_rec` never receive **kwargs or
    *args, so the resolver does not see them (a plain positional `kwargs` is not a use it follows)."""
    lines = [f"{ind}_rec({owner!r}" + "".join(f", {p['n']}={p['n']}" for p in sig["ps"]) + ")"]
    if not sig["kw"]:
        return lines
    fw = sig["fw"]
    qpos, q, op = fw.get("qpos", "stmt"), fw["q"], fw["qop"]
    nested = None
    if qpos == "stmt":
        for n in q:
            lines.append(f"{ind}v_{n} = kwargs.{op}({n!r}, {vals[(popowner, n)]!r})")
            lines.append(f"{ind}_rec({popowner!r}, {n}=v_{n})")
    elif qpos == "alias":  # kwargs.get("lr", kwargs.get("learning_rate", 0.1))
        for n in q:
            lines.append(f"{ind}_peek(kwargs, {popowner!r}, {n!r})")
        lines.append(f"{ind}v_{q[0]} = kwargs.{op}({q[0]!r}, kwargs.{op}({q[1]!r}, {vals[(popowner, q[1])]!r}))")
    else:  # "arg" / "kw": the pop is written inside the argument list of the forwarding call
        lines.append(f"{ind}_peek(kwargs, {popowner!r}, {q[0]!r})")
        nested = f"kwargs.{op}({q[0]!r}, {vals[(popowner, q[0])]!r})"
    args = []
    if fw.get("pos", 0):
        args.append(nested if qpos == "arg" else repr("pos:" + owner))
    for idx, n in enumerate(fw["hard"]):
        args.append(f"{n}=" + (nested if (qpos == "kw" and idx == 0) else repr("hard:" + owner + ":" + n)))
    if attr:  # kwargs is stored in an attribute and unpacked later in a member
        name, member, av = attr
        pre = "".join(f"{n}={'pre:' + owner + ':' + n!r}, " for n in fw.get("pre") or [])  # (round 4) a pre-filled dict
        if av == "upd":
            lines += [f"{ind}self.{name} = dict({pre[:-2]})", f"{ind}self.{name}.update(**kwargs)"]
        elif av == "dict":
            lines.append(f"{ind}self.{name} = dict({pre}**kwargs)")
        else:
            lines.append(f"{ind}self.{name} = kwargs")
        lines.append(f"{ind}_keep(self, {member!r})")
    elif call:
        amode = fw.get("amode", "-")
        if amode == "-" or not fw.get("alt"):
            lines.append(f"{ind}{call}({', '.join(args + ['**kwargs'])})")
        else:  # (round 4) a second use of **kwargs in the else-branch of an if around the forwarding call
            cid = owner[1:].split(".")[0]
            test = {"if": "_cond()", "glob": f"G{cid}", "nglob": f"not G{cid}"}[amode]
            aargs = [f"{n}={'hard:F' + cid + '.4:' + n!r}" for n in fw.get("ahard") or []]
            lines += [f"{ind}if {test}:", f"{ind}    {call}({', '.join(args + ['**kwargs'])})", f"{ind}else:",
                      f"{ind}    f{cid}_4({', '.join(aargs + ['**kwargs'])})"]
    return lines


def has_if(prog, fn_chain=None):
    """the program contains an `if` with a run-time test around two uses of **kwargs: every call is made for both values"""
    sigs = [cl["init"] for cl in prog["classes"]] + list(fn_chain or [])
    return any(s["has"] and s["kw"] and s["fw"].get("amode", "-") == "if" for s in sigs)


HEADER = ["LOG = []", "OBJS = []", "COND = False", "", "", "def _cond():", "    return COND", "", "", "def _rec(owner, **vals):", "    LOG.append((owner, vals))", "", "",
          "def _peek(kw, owner, name):", "    if name in kw:", "        LOG.append((owner, {name: kw[name]}))", "", "",
          "def _keep(obj, member):", "    OBJS.append((obj, member))", ""]


def render(prog, fn_chain=None):
    decls = decl_list(prog, fn_chain)
    vals = default_values(decls)
    src = list(HEADER)

    def alt_src(sig, cid):
        fw = sig["fw"]
        if not (sig["has"] and sig["kw"] and fw.get("alt") and fw.get("amode", "-") != "-"):
            return
        if fw["amode"] in ("glob", "nglob"):  # the module global the test looks at
            src.extend([f"G{cid} = {bool(fw['aflag'])!r}", ""])
        g = fw["alt"][0]
        items = _params_src(g["ps"], f"F{cid}.4", vals) + (["**kwargs"] if g["kw"] else [])
        src.extend(["", f"def f{cid}_4({', '.join(items)}):"])
        src.extend(_body_src(g, f"F{cid}.4", f"Q{cid}.4", vals, None, "    "))
        src.append("")

    def chain_src(chain, cid):
        if chain:
            alt_src(chain[0], cid)
        for j in range(len(chain), 0, -1):
            s = chain[j - 1]
            owner = f"F{cid}.{j}"
            items = _params_src(s["ps"], owner, vals) + (["**kwargs"] if s["kw"] else [])
            src.append("")
            src.append(f"def f{cid}_{j}({', '.join(items)}):")
            call = None
            if s["kw"] and s["fw"]["k"] == "next":
                call = f"f{cid}_{j + 1}"
            elif s["kw"] and s["fw"]["k"] == "new":
                call = f"C{s['fw']['b']}"
            src.extend(_body_src(s, owner, f"Q{cid}.{j}", vals, call, "    "))
            src.append("")

    if fn_chain:
        chain_src(fn_chain, 0)
    for c, cl in enumerate(prog["classes"], 1):
        i = cl["init"]
        kind = i["fw"]["k"] if (i["has"] and i["kw"]) else None
        if kind in ("func", "attr"):
            chain_src(i["fw"]["chain"], c)
        alt_src(i, c)
        bases = ", ".join(f"C{b}" for b in cl["bases"])
        src.append("")
        src.append(f"class C{c}({bases}):" if bases else f"class C{c}:")
        body = []
        if i["has"]:
            items = _params_src(i["ps"], f"C{c}", vals, "self") + (["**kwargs"] if i["kw"] else [])
            body.append(f"    def __init__({', '.join(items)}):")
            call = None
            if kind:
                call = {"super0": "super().__init__", "superB": f"super(C{i['fw']['b']}, self).__init__", "func": f"f{c}_1",
                        "meth": "self.m", "new": f"C{i['fw']['b']}", "ignore": None, "attr": None}[kind]
            attr = (f"_kw{c}", f"use{c}", i["fw"].get("av", "meth")) if kind == "attr" else None
            body.extend(_body_src(i, f"C{c}", f"P{c}", vals, call, "        ", attr))
            if attr:  # the member that unpacks the stored dict, with the hard-coded arguments of THAT call
                fw = i["fw"]
                args = ([repr("pos:C%d" % c)] if fw.get("pos", 0) else []) + [f"{n}={'hard:C%d:%s' % (c, n)!r}" for n in fw["hard"]]
                body.append("")
                if attr[2] == "prop":
                    body.append("    @property")
                body.append(f"    def use{c}(self):")
                body.append(f"        return f{c}_1({', '.join(args + ['**self._kw%d' % c])})")
        if cl["m"]["has"]:
            if body:
                body.append("")
            items = _params_src(cl["m"]["ps"], f"M{c}", vals, "self")
            body.append(f"    def m({', '.join(items)}):")
            body.extend(_body_src(cl["m"], f"M{c}", f"M{c}", vals, None, "        "))
        src.extend(body or ["    pass"])
        src.append("")
    return "\n".join(src) + "\n", decls, vals


class Scratch:
    """a scratch package under /tmp holding one real source file per program"""

    def __init__(self, tag):
        self.root = common.scratch("c13")
        self.pkg = f"vp13_{tag}_{os.getpid()}"
        (self.root / self.pkg).mkdir()
        (self.root / self.pkg / "__init__.py").write_text("")
        sys.path.insert(0, str(self.root))
        self.n = 0

    def load(self, source):
        self.n += 1
        name = f"m{self.n:06d}"
        path = self.root / self.pkg / (name + ".py")
        path.write_text(source)
        importlib.invalidate_caches()
        return importlib.import_module(f"{self.pkg}.{name}"), path

    def drop(self, mod, path):
        sys.modules.pop(mod.__name__, None)
        try:
            path.unlink()
        except OSError:
            pass
        if self.n % 200 == 0:
            linecache.clearcache()

    def close(self):
        try:
            sys.path.remove(str(self.root))
        except ValueError:
            pass
        common.rm(self.root)


# ---------------------------------------------------------------- observers
def universe(prog, fn_chain=None):
    names = {"zz"}

    def chain_names(chain):
        for s in chain:
            names.update(p["n"] for p in s["ps"])
            names.update(s["fw"]["q"])
            names.update(s["fw"]["hard"])
            names.update(s["fw"].get("ahard") or [])
            names.update(s["fw"].get("pre") or [])
            chain_names(s["fw"].get("alt") or [])

    if fn_chain is not None:
        chain_names(fn_chain)
    for cl in prog["classes"]:
        for s in (cl["init"], cl["m"]):
            names.update(p["n"] for p in s["ps"])
        names.update(cl["init"]["fw"]["q"])
        names.update(cl["init"]["fw"]["hard"])
        names.update(cl["init"]["fw"].get("ahard") or [])
        names.update(cl["init"]["fw"].get("pre") or [])
        chain_names(cl["init"]["fw"]["chain"])
        chain_names(cl["init"]["fw"].get("alt") or [])
    return sorted(names)


def use_members(mod):
    """a stored **kwargs is unpacked when the member is used: use every such member of every object that was built"""
    while mod.OBJS:  # using a member can build further objects that store their **kwargs
        obj, member = mod.OBJS.pop(0)
        v = getattr(obj, member)  # a property is evaluated here
        if callable(v):
            v()


def first_places(log, sent):
    """name -> owner of the FIRST log entry that holds the value passed for that name under that name (a value that
    is popped and handed on as a hard-coded argument shows up again further down: the pop is what received it)"""
    out = {}
    for o, vals in log:
        for n, v in vals.items():
            if n in sent and n not in out and type(v) is type(sent[n]) and v == sent[n]:
                out[n] = o
    return out


def interp_table(mod, target, univ, cvs=(False,)):
    """(1) what THE INTERPRETER does with every keyword subset: accepted or not, and where each keyword is bound
    (round 4: for every value of the run-time test of an `if` around two uses of **kwargs)"""
    rows = []
    for cv in cvs:
        mod.COND = cv
        for r in range(len(univ) + 1):
            for K in itertools.combinations(univ, r):
                mod.LOG.clear()
                mod.OBJS.clear()
                try:
                    target(**{n: "S:" + n for n in K})
                    use_members(mod)
                    ok = True
                except (TypeError, AttributeError):
                    ok = False
                bind = sorted(first_places(mod.LOG, {n: "S:" + n for n in K}).items()) if ok else []
                rows.append({"K": list(K), "cv": cv, "ok": ok, "bind": [list(b) for b in bind]})
    mod.COND = False
    return rows


def slices_of(rows):
    """per value of the run-time test: the names some successful call of that slice passed"""
    out = {}
    for r in rows:
        out.setdefault(r["cv"], set())
        if r["ok"]:
            out[r["cv"]].update(r["K"])
    return out


def summarise(rows):
    oks = [r for r in rows if r["ok"]]
    if not oks or {r["cv"] for r in oks} != {r["cv"] for r in rows}:  # every branch must be usable
        return {"callable": False, "req": [], "acc": [], "bind": []}
    req = set(oks[0]["K"])
    acc, bind = set(), set()
    for r in oks:
        req &= set(r["K"])
        acc |= set(r["K"])
        bind |= {tuple(b) for b in r["bind"]}
    return {"callable": True, "req": sorted(req), "acc": sorted(acc), "bind": sorted(bind)}


def _owner(component, keyword_only):
    q = getattr(component, "__qualname__", repr(component))
    if q.startswith("C") and q.endswith(".__init__"):
        return ("P" if keyword_only else "C") + q[1:-9]
    if q.startswith("C") and q.endswith(".m"):
        return "M" + q[1:-2]
    if q.startswith("f") and "_" in q:
        cid, j = q[1:].split("_")
        return ("Q" if keyword_only else "F") + f"{cid}.{j}"
    return "?" + q


def _tcode(annotation):
    if annotation is inspect._empty:
        return "none"
    if annotation is int:
        return "int"
    if annotation is str:
        return "str"
    if getattr(annotation, "__origin__", None) is typing.Union:
        return "union"
    return "?" + repr(annotation)


def _dcode(default, o, n, vals):
    if default is inspect._empty:
        return "req"
    if isinstance(default, _pr.ConditionalDefault):
        return "cond"
    if isinstance(default, _pr.UnknownDefault):
        return "expr"  # the default in the source is not a literal
    exp = vals.get((o, n), inspect._empty)
    if exp is not inspect._empty and type(exp) is type(default) and exp == default:
        return "dflt"
    return "other:" + repr(default)[:40]


def alpha_resolved(params, vals):
    out = []
    for p in params:
        ko = p.kind == inspect.Parameter.KEYWORD_ONLY
        comp = p.component
        while isinstance(comp, tuple):  # a conditional parameter lists the defs of all its uses (nested when regrouped)
            comp = comp[0]
        o = _owner(comp, ko)
        out.append({"n": p.name, "t": _tcode(p.annotation), "d": _dcode(p.default, o, p.name, vals), "o": o,
                    "kind": "ko" if ko else ("pk" if p.kind == inspect.Parameter.POSITIONAL_OR_KEYWORD else str(p.kind)),
                    "org": "-" if p.origin is None else ("cond" if isinstance(p.origin, tuple) else "node")})
    return out


def observe_resolver(target):
    """(2a) get_signature_parameters; the AST resolver must be the one that answers (Alg-level observation)"""
    params = get_params(target)
    ast_same = None
    try:
        viaast = _pr.get_parameters_from_ast(target, None, _pr.parse_logger(False, "c13"))
        ast_same = [p.name for p in viaast] == [p.name for p in params]
    except Exception as ex:  # the spec assumes the AST resolver never gives up on the grammar
        ast_same = f"{type(ex).__name__}: {ex}"[:200]
    return params, ast_same


def get_params(target):
    return _pr.get_signature_parameters(target, None, logger=False)


def observe_parser(target, is_class, vals, offer_by_name):
    """(2b) add_class_arguments / add_function_arguments and (3) parse a value for every offered parameter, instantiate"""
    out = {"added": None, "error": None, "inst": None}
    parser = ArgumentParser(exit_on_error=False)
    try:
        added = parser.add_class_arguments(target, "o") if is_class else parser.add_function_arguments(target, "o")
    except Exception as ex:
        out["error"] = f"add_arguments: {type(ex).__name__}: {ex}"[:300]
        return out, None, None
    rev = {}
    for (o, n), v in vals.items():
        rev.setdefault((n, type(v).__name__, v), o)
    acts = {a.dest: a for a in parser._actions}
    params = []
    for dest in added:
        n = dest[2:]
        a = acts.get(dest)
        th = getattr(a, "_typehint", None)
        if th is int:
            t = "int"
        elif th is str:
            t = "str"
        elif th is typing.Any or (getattr(th, "__origin__", None) is typing.Union and typing.Any in getattr(th, "__args__", ())):
            t = "none"  # no annotation in the source: whatever permissive type the parser infers (the property does not say)
        else:
            t = "?" + repr(th)
        dv = getattr(a, "default", None)
        if dest in parser.required_args:
            d, o = "req", None
        elif isinstance(dv, _pr.ConditionalDefault):
            d, o = "cond", None
        elif isinstance(dv, _pr.UnknownDefault):
            d, o = "expr", None
        else:
            o = rev.get((n, type(dv).__name__, dv))
            d = "dflt" if o is not None else "other:" + repr(dv)[:40]
        params.append({"n": n, "t": t, "d": d, "o": o})
    out["added"] = params
    return out, parser, added


def instantiate_all(parser, added, target, is_class, mod, offer_by_name, accepted=None):
    """(3) a value for EVERY offered parameter, parsed by the real parser, then instantiate / call.
    (round 4) accepted = {value of the run-time test: names THE INTERPRETER accepted in that branch}, given for programs
    with an `if` around two uses of **kwargs: for each branch, every offered parameter that the branch accepts (the
    documented Conditional parameters of the other branch cannot be passed together with them)"""
    res = {"raised": None, "delivered": [], "args": []}
    for cv, acc in sorted((accepted or {False: None}).items()):
        args = []
        for k, dest in enumerate(added):
            n = dest[2:]
            if acc is not None and n not in acc:
                continue
            exp = offer_by_name.get(n)
            t = exp["t"] if exp else "none"
            args.append(f"--{dest}=" + (str(7000 + k) if t != "str" else f"val_{n}"))
        res["args"].append(args)
        try:
            cfg = parser.parse_args(args)
            given = dict(cfg.o.items()) if added else {}
            mod.LOG.clear()
            mod.OBJS.clear()
            mod.COND = cv
            if is_class:
                parser.instantiate_classes(cfg)
            else:
                target(**given)
            use_members(mod)
        except BaseException as ex:  # SystemExit cannot happen with exit_on_error=False, but nothing may escape
            res["raised"] = f"{type(ex).__name__}: {ex}"[:300] + (f" [run-time test {cv}]" if accepted else "")
            return res
        finally:
            mod.COND = False
        places = first_places(mod.LOG, given)
        for n in given:
            if accepted and n not in places:
                continue  # accepted by this branch but swallowed by an unused **kwargs there (it is bound in the other branch)
            res["delivered"].append([n, [places[n]] if n in places else []])
    if not accepted:
        res["args"] = res["args"][0]
    return res


def observe_component(mod, target, is_class, univ, vals, offer_by_name=None, with_table=True, cvs=(False,), accepted=None):
    obs = {"table": interp_table(mod, target, univ, cvs) if with_table else None}
    if with_table and len(cvs) > 1:
        accepted = slices_of(obs["table"])
    try:
        params, ast_same = observe_resolver(target)
    except Exception as ex:  # get_signature_parameters is documented to return a list, whatever the source looks like
        obs["resolver_error"] = f"{type(ex).__name__}: {ex}"[:300]
        obs["resolved"] = None
        return obs
    obs["resolved"] = alpha_resolved(params, vals)
    obs["ast_same"] = ast_same
    if offer_by_name is None:  # TRACE mode: the values to parse are chosen from what the resolver itself offered
        offer_by_name = {p["n"]: p for p in obs["resolved"]}
    pobs, parser, added = observe_parser(target, is_class, vals, offer_by_name)
    obs["parser"] = pobs
    if parser is not None:
        obs["inst"] = instantiate_all(parser, added, target, is_class, mod, offer_by_name, accepted)
    return obs


# ---------------------------------------------------------------- replay of TLC's programs (spec -> code), in worker processes
def _replay_chunk(job):
    tag, cases = job
    sc = Scratch(tag)
    out = []
    try:
        for case in cases:
            prog, comp = case["prog"], case["comp"]
            fn_chain = comp["chain"] if comp["k"] == "fn" else None
            source, decls, vals = render(prog, fn_chain)
            try:
                mod, path = sc.load(source)
            except Exception as ex:
                out.append({"h": case["h"], "load_error": f"{type(ex).__name__}: {ex}"[:300], "source": source})
                continue
            try:
                target = getattr(mod, f"C{comp['c']}") if comp["k"] == "cls" else getattr(mod, "f0_1")
                univ = sorted(case["univ"])
                obs = {"h": case["h"]}
                cvs = (False, True) if has_if(prog, fn_chain) else (False,)
                rows = interp_table(mod, target, univ, cvs)
                obs["summary"] = summarise(rows)
                obs["ncalls"] = len(rows)
                if case["callable"] and obs["summary"]["callable"]:
                    offer_by_name = {d["n"]: d for d in case["offer"]}
                    o2 = observe_component(mod, target, comp["k"] == "cls", univ, vals, offer_by_name, with_table=False,
                                           accepted=slices_of(rows) if len(cvs) > 1 else None)
                    obs.update({k: o2[k] for k in ("resolved", "ast_same", "parser", "inst", "resolver_error") if k in o2})
                obs["source"] = source
                out.append(obs)
            except Exception as ex:
                out.append({"h": case["h"], "harness_error": f"{type(ex).__name__}: {ex}"[:400], "source": source})
            finally:
                sc.drop(mod, path)
    finally:
        sc.close()
    return out


def run_pool(fn, jobs):
    if not jobs:
        return []
    ctx = mp.get_context("fork")
    with ctx.Pool(min(NPROC, len(jobs))) as pool:
        res = pool.map(fn, jobs, chunksize=1)
    return [x for part in res for x in part]


def chunks(items, tagbase, size):
    return [(f"{tagbase}{i // size}", items[i:i + size]) for i in range(0, len(items), size)]


# ---------------------------------------------------------------- classification
def prog_shape(case_or_prog, comp):
    """coarse, stable description of a program for finding keys: the forwarding kinds along the classes"""
    prog = case_or_prog
    if comp["k"] == "fn":
        return "fn:" + "/".join((s["fw"]["k"] if s["kw"] else "named") for s in comp["chain"])
    ks = []
    for cl in prog["classes"]:
        i = cl["init"]
        ks.append("noinit" if not i["has"] else ("named" if not i["kw"] else i["fw"]["k"]))
    return "cls:" + "/".join(ks)


def features(prog, comp):
    """which parts of the grammar a (program, component) exercises (counted into the evidence: non-vacuity)"""
    out = set()

    def of_sig(sg):
        if not (sg["has"] and sg["kw"]):
            return
        fw = sg["fw"]
        out.add("kind:" + fw["k"])
        if fw["q"]:
            out.add(f"take:{fw['qop']}/{fw.get('qpos', 'stmt')}")
        if fw["hard"]:
            out.add("hard")
            if fw["k"] == "attr":
                out.add("attr+hard")
        if fw.get("pos", 0):
            out.add("positional")
        if fw["k"] == "attr":
            out.add("attr:" + fw.get("av", "-"))
            if fw.get("pre"):
                out.add("attr+prefilled:" + fw.get("av", "-"))
            if fw.get("pos", 0):
                out.add("attr+positional")
        if fw.get("alt") and fw.get("amode", "-") != "-":
            out.add("two-uses:" + fw["amode"] + "/" + fw["k"])
        for f in fw["chain"]:
            of_sig(f)

    for cl in prog["classes"]:
        of_sig(cl["init"])
    for f in comp.get("chain") or []:
        of_sig(f)
    return out


def offer_set(params):
    return {(p["n"], p["o"], p["t"], p["d"]) for p in params}


def classify(rep, prog, comp, exp, obs, source, how):
    """exp: what the specification says ({offer, alg, dev, req}); obs: what the real code did.  Registers violations
    (Ref) / drift (Alg) and returns the list of clause names that failed."""
    failed = []
    dev = exp.get("dev", "-")
    ref = exp["offer"]
    ref_names = sorted({d["n"] for d in ref})
    ref_set = offer_set(ref)
    alg = exp.get("alg")
    shape = prog_shape(prog, comp)
    base_case = {"how": how, "program": prog, "component": comp, "source": source, "spec_offer": ref, "spec_alg": alg,
                 "deviation": dev, "python": f"write `source` to a module, then jsonargparse._parameter_resolvers.get_signature_parameters({'C%d' % comp['c'] if comp['k'] == 'cls' else 'f0_1'})"}

    def viol(clause, what, extra):
        failed.append(clause)
        as_alg = False
        if dev != "-" and alg is not None and obs.get("resolved") is not None:
            as_alg = [(p["n"], p["o"]) for p in obs["resolved"]] == [(p["n"], p["o"]) for p in alg]
        if dev != "-":
            key = f"{dev}/{'as-alg' if as_alg else 'other'}:{clause}"
        else:
            key = f"{clause}:{shape}"
        rep.violation(key, what, {**base_case, **extra})

    res = obs.get("resolved")
    if obs.get("resolver_error"):
        viol("resolver-raises", f"get_signature_parameters raised {obs['resolver_error']} [{shape}]", {})
    if res is not None:
        names = [p["n"] for p in res]
        if sorted(names) != ref_names:
            missing = sorted(set(ref_names) - set(names))
            extra = sorted(set(names) - set(ref_names))
            dup = sorted({n for n in names if names.count(n) > 1})
            viol("resolver-names", f"get_signature_parameters offers {names} but the legal named parameters are {ref_names} "
                 f"(missing {missing}, not legal {extra}, duplicated {dup}) [{shape}]", {"observed": res})
        else:
            # a Conditional parameter is documented behaviour exactly where the transcribed algorithm predicts one
            alg_cond = {p["n"] for p in (alg or []) if p["d"] == "cond"}
            bad = [p for p in res if ((p["n"], p["o"], p["t"], p["d"]) not in ref_set) if not (p["d"] == "cond" and (p["n"] in alg_cond or dev != "-"))]
            if bad:
                viol("resolver-signature", f"resolved parameter(s) {[(p['n'], p['o'], p['t'], p['d']) for p in bad]} do not carry the type/default "
                     f"of the signature they are bound in {sorted(ref_set)} [{shape}]", {"observed": res})
            # (round 4) a parameter that some branch of an `if` around two uses does not accept must be Conditional
            every = exp.get("every")
            if every is not None and not failed:
                bad = [p["n"] for p in res if p["d"] != "cond" and p["n"] not in every]
                if bad:
                    viol("resolver-uncond", f"parameter(s) {bad} are offered unconditionally although one branch of the conditional calls does not "
                         f"accept them (accepted by every branch: {sorted(every)}) [{shape}]", {"observed": res})
        if alg is not None and not failed:
            seen = [(p["n"], p["o"], p["t"], p["d"], p["kind"], p["org"]) for p in res]
            want = [(p["n"], p["o"], p["t"], p["d"], p["kind"], p["org"]) for p in alg]
            if seen != want:
                rep.add_drift("resolver result agrees with Ref but not with the Alg transcription (order / kind / origin / conditional)",
                              {"observed": seen, "alg": want, "shape": shape})
        if obs.get("ast_same") is not True:
            rep.add_drift("the AST resolver was not the one that answered", {"ast_same": obs.get("ast_same"), "shape": shape})
    po = obs.get("parser")
    if po is not None:
        if po["error"]:
            viol("parser-add", f"adding the arguments raised {po['error']} [{shape}]", {"observed": po})
        else:
            pn = [p["n"] for p in po["added"]]
            if sorted(pn) != ref_names:
                viol("parser-names", f"the parser offers {pn} but the legal named parameters are {ref_names} [{shape}]", {"observed": po["added"]})
            else:
                by = {}
                for d in ref:  # (round 4: a name can be bound in one declaration per branch of an `if` around two uses)
                    by.setdefault(d["n"], []).append(d)
                bad = []
                for p in po["added"]:
                    if p["d"] == "cond" and (p["n"] in {q["n"] for q in (alg or []) if q["d"] == "cond"} or dev != "-"):
                        continue
                    if all(p["t"] != e["t"] or p["d"] != e["d"] or (p["d"] == "dflt" and p["o"] != e["o"]) for e in by[p["n"]]):
                        bad.append((p, by[p["n"]][0]))
                every = exp.get("every")
                ubad = [p["n"] for p in po["added"] if p["d"] != "cond" and p["n"] not in every] if every is not None else []
                if ubad:
                    viol("parser-uncond", f"parser argument(s) {ubad} are offered unconditionally although one branch of the conditional calls "
                         f"does not accept them [{shape}]", {"observed": po["added"]})
                if bad:
                    viol("parser-signature", f"parser argument(s) do not carry the type/default of the signature they are bound in: {bad[:3]} [{shape}]",
                         {"observed": po["added"]})
    inst = obs.get("inst")
    if inst is not None and "parser-names" not in failed and "parser-add" not in failed:
        if inst["raised"]:
            viol("instantiate", f"instantiating with every offered parameter raised {inst['raised']} [{shape}]", {"observed": inst})
        else:
            by = {}
            for d in ref:  # (round 4: one declaration per branch of an `if` around two uses)
                by.setdefault(d["n"], set()).add(d["o"])
            wrong = [(n, where, sorted(by.get(n, ()))) for n, where in inst["delivered"] if not (len(where) == 1 and where[0] in by.get(n, ()))]
            if wrong:
                viol("deliver", f"a parsed value did not arrive at the signature the parameter comes from: {wrong[:3]} [{shape}]", {"observed": inst})
    return failed


# ---------------------------------------------------------------- random programs beyond TLC's bounds (code -> spec)
RNAMES = ["a", "b", "c", "d", "e", "f"]


def rand_params(rnd, names, kmax):
    chosen = sorted(rnd.sample(names, rnd.randint(0, min(kmax, len(names)))))
    ps = []
    for n in chosen:
        r = rnd.random()
        if r < 0.25:
            ps.append({"n": n, "t": rnd.choice(["int", "str"]), "d": "req"})
        elif r < 0.8:
            ps.append({"n": n, "t": rnd.choice(["int", "str"]), "d": "dflt"})
        else:
            ps.append({"n": n, "t": "none", "d": "dflt"})
    ps.sort(key=lambda p: (p["d"] != "req", p["n"]))
    return ps


NOFWD = {"k": "ignore", "b": 0, "hard": [], "pos": 0, "q": [], "qop": "pop", "qpos": "stmt", "av": "-", "chain": [],
         "amode": "-", "aflag": False, "ahard": [], "alt": [], "pre": []}
NOSIG = {"has": False, "ps": [], "kw": False, "fw": dict(NOFWD)}


def rand_take(rnd, fw, names, forwarding, nest_ok=True):
    """kwargs.pop / kwargs.get in a def: as statements, nested in the arguments of the forwarding call, or as an alias"""
    r = rnd.random()
    if forwarding:
        if r < 0.35:
            fw["q"], fw["qop"] = sorted(rnd.sample(names, 1)), "pop"
            fw["qpos"] = rnd.choice(["stmt", "stmt"] + (["arg"] if nest_ok else []) + (["kw"] if (nest_ok and fw["hard"]) else []))
        elif r < 0.42:
            fw["q"], fw["qop"], fw["qpos"] = rnd.sample(names, 2), "pop", "alias"
        if fw["qpos"] == "arg":
            fw["pos"] = 1
        elif nest_ok and rnd.random() < 0.08:
            fw["pos"] = 1  # a hard-coded positional argument
    elif r < 0.4:
        fw["q"], fw["qop"] = sorted(rnd.sample(names, rnd.randint(1, 2))), rnd.choice(["pop", "get"])
    elif r < 0.55:
        fw["q"], fw["qop"], fw["qpos"] = rnd.sample(names, 2), rnd.choice(["pop", "get"]), "alias"


_IF_USED = [False]   # reset by rand_program


def rand_alt(rnd, fw, names):
    """(round 4) a second use of **kwargs in the else-branch of an if around the forwarding call"""
    if fw["qpos"] != "stmt" or rnd.random() >= 0.3:
        return
    g = {"has": True, "ps": rand_params(rnd, names, 2), "kw": rnd.random() < 0.35, "fw": dict(NOFWD)}
    if g["kw"]:
        rand_take(rnd, g["fw"], names, False)
    fw["alt"] = [g]
    # at most ONE def of a program tests the run-time flag: every `if _cond()` looks at the same flag, so two such defs on
    # one call path are semantically exclusive branches that no static resolver can tell apart (the Ref slices per value
    # of the flag would then demand more than the property states -- a false alarm of the thorough tier, see DESIGN I.6)
    modes = ["glob", "nglob"] if _IF_USED[0] else ["if", "if", "if", "glob", "nglob"]
    fw["amode"] = rnd.choice(modes)
    if fw["amode"] == "if":
        _IF_USED[0] = True
    fw["aflag"] = rnd.random() < 0.5
    if rnd.random() < 0.3:
        fw["ahard"] = sorted(rnd.sample(names, 1))


def rand_chain(rnd, names, depth, classes_below=0, top=False):
    chain = []
    for j in range(depth):
        last = j == depth - 1
        kw = (not last) or rnd.random() < 0.5
        fw = dict(NOFWD)
        if kw:
            if last and classes_below and rnd.random() < 0.5:
                fw["k"] = "new"
                fw["b"] = rnd.randint(1, classes_below)
                if rnd.random() < 0.3:
                    fw["hard"] = sorted(rnd.sample(names, 1))
                rand_take(rnd, fw, names, True)
            elif last:
                fw["k"] = "ignore"
                rand_take(rnd, fw, names, False)
            else:
                fw["k"] = "next"
                if rnd.random() < 0.4:
                    fw["hard"] = sorted(rnd.sample(names, rnd.randint(1, 2)))
                rand_take(rnd, fw, names, True)
                if j == 0 and top:  # only the first function of a chain that is a component itself
                    rand_alt(rnd, fw, names)
        chain.append({"has": True, "ps": rand_params(rnd, names, 2), "kw": kw, "fw": fw})
    return chain


def rand_program(rnd):
    _IF_USED[0] = False
    n = rnd.randint(2, 6)
    names = RNAMES[: rnd.randint(3, 6)]
    classes = []
    for c in range(1, n + 1):
        prev = list(range(1, c))
        r = rnd.random()
        if not prev or r < 0.12:
            bases = []
        elif r < 0.7 or len(prev) < 2:
            bases = [rnd.choice(prev[-2:])]
        else:
            bases = rnd.sample(prev[-3:], 2)
        init = json.loads(json.dumps(NOSIG))
        m = json.loads(json.dumps(NOSIG))
        if rnd.random() < 0.88:
            init["has"] = True
            init["ps"] = rand_params(rnd, names, 3)
            if rnd.random() < 0.8:
                init["kw"] = True
                k = rnd.choices(["ignore", "super0", "superB", "func", "meth", "new", "attr"], [1, 6, 2, 2, 1, 1 if c > 1 else 0, 2])[0]
                fw = dict(NOFWD)
                fw["k"] = k
                if k == "ignore":
                    rand_take(rnd, fw, names, False)
                else:
                    if rnd.random() < 0.4:
                        fw["hard"] = sorted(rnd.sample(names, rnd.randint(1, 2)))
                    rand_take(rnd, fw, names, True, nest_ok=(k != "attr"))
                    if k == "superB":
                        fw["b"] = c  # replaced below by a class of the linearisation
                    if k == "new":
                        fw["b"] = rnd.randint(1, c - 1)
                    if k in ("func", "attr"):
                        fw["chain"] = rand_chain(rnd, names, rnd.randint(1, 3), c - 1)
                    if k == "attr":
                        fw["av"] = rnd.choice(["meth", "prop", "upd", "dict"])
                        free = [x for x in names if x not in fw["hard"]]
                        if fw["av"] in ("upd", "dict") and free and rnd.random() < 0.4:
                            fw["pre"] = sorted(rnd.sample(free, 1))  # (round 4) a pre-filled stored dict
                        if rnd.random() < 0.12:
                            fw["pos"] = 1  # (round 4) a hard-coded positional at the call that unpacks the stored dict
                    else:
                        rand_alt(rnd, fw, names)
                    if k == "meth":
                        m = {"has": True, "ps": rand_params(rnd, names, 2), "kw": False, "fw": dict(NOFWD)}
                init["fw"] = fw
        if not m["has"] and rnd.random() < 0.08:
            m = {"has": True, "ps": rand_params(rnd, names, 2), "kw": False, "fw": dict(NOFWD)}
        classes.append({"bases": bases, "init": init, "m": m})
    return {"classes": classes}


def _trace_chunk(job):
    tag, seeds = job
    sc = Scratch(tag)
    out = []
    try:
        for sd in seeds:
            rnd = common.rng(f"C13/prog/{sd}")
            prog = rand_program(rnd)
            fn_chain = rand_chain(rnd, RNAMES[:4], rnd.randint(1, 3), len(prog["classes"]), top=True) if rnd.random() < 0.5 else None
            # super(B, self): B must be in the linearisation of the class; ask Python for it
            source, decls, vals = render(prog, fn_chain)
            try:
                mod, path = sc.load(source)
            except TypeError:  # inconsistent MRO: not a program
                continue
            except Exception as ex:
                out.append({"seed": sd, "harness_error": f"load: {type(ex).__name__}: {ex}"[:300], "source": source})
                continue
            changed = False
            for c, cl in enumerate(prog["classes"], 1):
                fw = cl["init"]["fw"]
                if cl["init"]["has"] and cl["init"]["kw"] and fw["k"] == "superB":
                    mro = [int(k.__name__[1:]) for k in getattr(mod, f"C{c}").__mro__ if k is not object]
                    fw["b"] = rnd.choice(mro)
                    changed = True
            if changed:
                sc.drop(mod, path)
                source, decls, vals = render(prog, fn_chain)
                mod, path = sc.load(source)
            try:
                comps = [({"k": "cls", "c": c, "chain": []}, getattr(mod, f"C{c}"), None) for c in range(1, len(prog["classes"]) + 1)]
                if fn_chain:
                    comps.append(({"k": "fn", "c": 0, "chain": fn_chain}, getattr(mod, "f0_1"), fn_chain))
                for comp, target, chain in comps:
                    univ = universe(prog, chain)
                    if len(univ) > 8:
                        continue
                    cvs = (False, True) if has_if(prog, chain) else (False,)
                    rows = interp_table(mod, target, univ, cvs)
                    rec = {"seed": sd, "prog": prog, "comp": comp, "univ": univ, "table": rows, "source": source}
                    if summarise(rows)["callable"]:
                        o2 = observe_component(mod, target, comp["k"] == "cls", univ, vals, None, with_table=False,
                                               accepted=slices_of(rows) if len(cvs) > 1 else None)
                        rec.update({k: o2[k] for k in ("resolved", "ast_same", "parser", "inst", "resolver_error") if k in o2})
                    out.append(rec)
            except Exception as ex:
                out.append({"seed": sd, "harness_error": f"{type(ex).__name__}: {ex}"[:400], "source": source})
            finally:
                sc.drop(mod, path)
    finally:
        sc.close()
    return out


def trace_record(rec):
    """what goes to TLC: the program, the component and the observations in the spec's vocabulary"""
    res = rec.get("resolved")
    po = (rec.get("parser") or {}).get("added")
    return {
        "prog": rec["prog"], "comp": rec["comp"],
        "table": [{"K": r["K"], "cv": bool(r.get("cv", False)), "ok": r["ok"], "bind": [{"n": b[0], "o": b[1]} for b in r["bind"]]} for r in rec["table"]],
        "observed": res is not None,
        "resolved": [{"n": p["n"], "o": p["o"], "t": p["t"], "d": p["d"], "kind": p["kind"], "org": p["org"]} for p in (res or [])],
        "parsed": po is not None,
        "parser": [{"n": p["n"], "o": p["o"] or "?", "t": p["t"], "d": p["d"]} for p in (po or [])],
        # (3) where every parsed value arrived when everything that was offered was passed (empty if that raised)
        "delivered": [{"n": n, "o": (w[0] if len(w) == 1 else "?")} for n, w in ((rec.get("inst") or {}).get("delivered") or [])],
    }


# ---------------------------------------------------------------- main
def main(argv):
    tier = "thorough" if (argv and argv[0] == "thorough") else "quick"
    rep = Report(PID, tier)
    rep.assumptions = [
        "Python's call semantics are modelled for keyword-only calls of the grammar's defs (named parameters, **kwargs, hard-coded keywords, kwargs.pop/get, super(), super(B, self), self.m, helper functions); the model is validated on every replayed program against the interpreter itself, a mismatch being a machinery failure",
        "the generated classes record the arguments they receive in a module-level log; values do not influence control flow",
        "parameter types are int / str / unannotated, defaults are unique per declaration so that a default identifies the signature it comes from",
        "the AST resolver answers for every program of the grammar (checked per program, reported as drift otherwise); stubs, pydantic / attrs and class-instance defaults are outside the grammar",
        "a parameter the resolver reports as Conditional (documented behaviour for several uses of **kwargs) only has to be legal; its type/default are not compared",
        "two uses of **kwargs in one def are the documented conditional calls: `if <test>: call1(**kwargs) else: call2(**kwargs)`; a run-time test is a module-level function the harness switches, every call is made for both values, a program one of whose branches can only raise is not a component; legal = legal in some branch, and a parameter some branch does not accept must carry the Conditional marker; instantiation passes, per branch, every offered parameter that branch accepts (observed on the interpreter)",
    ]
    seed = common.seed()
    workers = int(os.environ.get("VERIF_TLC_WORKERS", "16"))
    # ---- MC
    # (round 4) the *_alt instances: programs whose last class / first function has a second use of **kwargs under an
    # if (run-time test, module global, `not` global) or stores **kwargs in a pre-filled dict
    cfgs = (["MC_Resolver_quick", "MC_Resolver_quick_alt"] if tier == "quick"
            else ["MC_Resolver_thorough_alt", "MC_Resolver_thorough", "MC_Resolver_thorough3", "MC_Resolver_thorough4"])
    fails, cases, n_states = [], [], 0
    def run_mc(cfgname):
        return tlc.run("MC_Resolver", cfgname, workers=workers, timeout=3000, heap="8g", env={"SEL_SEED": seed % 100000})

    if tier == "quick":  # the two small instances side by side (wall time)
        from concurrent.futures import ThreadPoolExecutor
        with ThreadPoolExecutor(len(cfgs)) as ex:
            mcs = list(ex.map(run_mc, cfgs))
    else:
        mcs = [run_mc(c) for c in cfgs]
    for cfgname, mc in zip(cfgs, mcs):
        rep.add_tlc(cfgname, mc)
        if mc.errors or mc.rc != 0:
            machinery_failure(PID, f"TLC failed on MC_Resolver ({cfgname}):\n" + mc.stdout[-3000:])
        fails += [p for p in mc.printed if isinstance(p, dict) and "fail" in p]
        cases += [p for p in mc.printed if isinstance(p, dict) and "callable" in p]
        n_states += mc.distinct
    if not cases:
        machinery_failure(PID, "MC_Resolver printed no program")
    cases.sort(key=lambda c: json.dumps([c["prog"], c["comp"]], sort_keys=True))  # TLC's workers print in no fixed order
    rep.extra["mc_programs_checked"] = n_states
    rep.extra["mc_programs_printed"] = len(cases)
    # design-level counterexamples (Alg does not refine Ref / a law of Ref fails): replayed like the others below
    for f in fails[:50]:
        clause = f["fail"]
        if clause.startswith("law-"):
            machinery_failure(PID, f"the reference model violates its own law {clause} on {json.dumps(f['prog'])[:1500]}")
    # ---- REPLAY
    size = max(20, min(400, len(cases) // (NPROC * 4) + 1))
    results = run_pool(_replay_chunk, chunks(cases, "r", size))
    if len(results) != len(cases):
        machinery_failure(PID, f"replayed {len(results)} of {len(cases)} programs")
    model_bad = []
    feat_mc, feat_rnd = {}, {}
    n_calls = 0
    devs_seen = {}
    for case, obs in zip(cases, results):
        if "load_error" in obs or "harness_error" in obs:
            model_bad.append({"case": case, "error": obs.get("load_error") or obs.get("harness_error"), "source": obs.get("source")})
            continue
        n_calls += obs["ncalls"]
        s = obs["summary"]
        exp_bind = sorted({(d["n"], d["o"]) for d in case["offer"]})
        if (s["callable"] != case["callable"] or (s["callable"] and (s["req"] != sorted(case["req"]) or s["acc"] != sorted(case["acc"])
                                                                      or [tuple(b) for b in s["bind"]] != exp_bind))):
            model_bad.append({"case": case, "interpreter": s, "source": obs["source"]})
            continue
        rep.traces += 1
        if not case["callable"]:
            continue
        comp = case["comp"]
        for ft in features(case["prog"], comp):
            feat_mc[ft] = feat_mc.get(ft, 0) + 1
        failed = classify(rep, case["prog"], comp, case, obs, obs["source"], "TLC-emitted program")
        if case["dev"] != "-":
            devs_seen[case["dev"]] = devs_seen.get(case["dev"], 0) + 1
        if case["offer"] and (len({d["o"] for d in case["offer"]}) > 1 or case["dev"] != "-"):
            rep.note_nontrivial(json.dumps([case["prog"], comp], sort_keys=True))
        if not failed:
            rep.sample({"program": case["prog"], "component": comp, "source": obs["source"], "spec_offer": case["offer"],
                        "observed_resolved": obs.get("resolved"), "instantiate": obs.get("inst")}, limit=3)
    if model_bad:
        machinery_failure(PID, f"the specification's model of Python disagrees with the interpreter on {len(model_bad)} program(s); first:\n"
                          + json.dumps(model_bad[0], indent=1, default=str)[:4000])
    for f in fails:
        if not f["fail"].startswith("law-"):
            rep.violation(f"model:{f['fail']}:{prog_shape(f['prog'], f['comp'])}",
                          f"TLC: clause {f['fail']} fails in the bounded model (the transcribed algorithm does not offer the legal parameters)",
                          {"program": f["prog"], "component": f["comp"]})
    rep.extra["interpreter_calls"] = n_calls
    rep.extra["deviation_programs_replayed"] = devs_seen
    rep.extra["features_replayed_callable_programs"] = dict(sorted(feat_mc.items()))

    # ---- TRACE
    nprog = 400 if tier == "quick" else 8000
    seeds = [f"{seed}/{i}" for i in range(nprog)]
    recs = run_pool(_trace_chunk, chunks(seeds, "t", max(10, nprog // (NPROC * 4))))
    herr = [r for r in recs if "harness_error" in r]
    if herr:
        machinery_failure(PID, f"{len(herr)} random program(s) could not be observed; first: {herr[0]['harness_error']}\n{herr[0].get('source', '')[:3000]}")
    tmp = common.scratch("c13-trace")
    rejects = {}
    info = {}
    try:
        chunk = 4000
        for c0 in range(0, len(recs), chunk):
            part = recs[c0:c0 + chunk]
            f = tmp / f"trace{c0}.json"
            f.write_text(json.dumps({"obs": [trace_record(r) for r in part]}))
            tr = tlc.run("Trace_Resolver", "Trace_Resolver", workers=workers, env={"TRACE_FILE": str(f)}, timeout=2400, heap="8g")
            rep.add_tlc(f"Trace_Resolver[{c0 // chunk}]", tr)
            if tr.errors or tr.rc != 0 or tr.distinct != len(part):
                machinery_failure(PID, f"trace validation failed (distinct={tr.distinct}, expected {len(part)}):\n" + tr.stdout[-3000:])
            for p in tr.printed:
                if isinstance(p, list) and p and p[0] == "R":
                    rejects.setdefault(c0 + p[2] - 1, []).append(p[3])
                elif isinstance(p, list) and p and p[0] == "I":
                    info[c0 + p[2] - 1] = p[3:]
            f.unlink()
    finally:
        common.rm(tmp)
    rep.extra["random_programs"] = nprog
    rep.extra["random_components_validated"] = len(recs)
    n_dev = 0
    for idx, rec in enumerate(recs):
        clauses = rejects.get(idx, [])
        meta = info.get(idx, ["?", "-"])
        if "interp" in clauses:
            machinery_failure(PID, "the specification's model of Python disagrees with the interpreter on a random program:\n"
                              + json.dumps({"prog": rec["prog"], "comp": rec["comp"], "table": rec["table"][:40]}, default=str)[:3000] + "\n" + rec["source"][:3000])
        rep.traces += 1
        if meta[1] != "-":
            n_dev += 1
        callable_ = summarise(rec["table"])["callable"]
        if callable_ and (len({p["o"] for p in rec.get("resolved") or []}) > 1):
            rep.note_nontrivial(json.dumps([rec["prog"], rec["comp"]], sort_keys=True))
        if not callable_:
            continue
        for ft in features(rec["prog"], rec["comp"]):
            feat_rnd[ft] = feat_rnd.get(ft, 0) + 1
        dev = meta[1]
        shape = prog_shape(rec["prog"], rec["comp"])
        case = {"how": f"random program {rec['seed']}", "program": rec["prog"], "component": rec["comp"], "source": rec["source"],
                "observed_resolved": rec.get("resolved"), "observed_parser": rec.get("parser"), "instantiate": rec.get("inst"),
                "deviation": dev, "failed_clauses": clauses}
        ref_fail = [c for c in clauses if c.startswith("ref-")]
        as_alg = "alg" not in clauses
        if rec.get("resolver_error"):
            rep.violation(f"resolver-raises:{shape}", f"random program: get_signature_parameters raised {rec['resolver_error']} [{shape}]", case)
        for c in ref_fail:
            key = f"{dev}/{'as-alg' if as_alg else 'other'}:{c[4:]}" if dev != "-" else f"{c[4:]}:{shape}"
            rep.violation(key, f"random program: clause {c} of Trace_Resolver fails [{shape}]", case)
        if "alg" in clauses and not ref_fail:
            rep.add_drift("resolver result agrees with Ref but not with the Alg transcription", {"shape": shape, "observed": rec.get("resolved")})
        if rec.get("ast_same") is not True:
            rep.add_drift("the AST resolver was not the one that answered", {"ast_same": rec.get("ast_same"), "shape": shape})
        # (3) is decided by the real code alone: instantiating with everything that was offered must not raise
        inst = rec.get("inst")
        pnames_ok = not any(c in clauses for c in ("ref-parser-names", "ref-resolver-names"))
        if inst is not None and inst["raised"] and pnames_ok:
            key = f"{dev}/{'as-alg' if as_alg else 'other'}:instantiate" if dev != "-" else f"instantiate:{shape}"
            rep.violation(key, f"random program: instantiating with every offered parameter raised {inst['raised']} [{shape}]", case)

    rep.extra["random_components_with_deviation"] = n_dev
    rep.extra["features_random_callable_components"] = dict(sorted(feat_rnd.items()))
    if recs:
        r0 = recs[len(recs) // 2]
        rep.sample({"random_program": r0["prog"], "component": r0["comp"], "source": r0["source"], "observed_resolved": r0.get("resolved")}, limit=5)

    rep.evaluations = rep.traces
    rep.rule = ("cases = (program, component) pairs: programs printed by TLC (all small ones, a seed-selected share of the larger ones) and every class / helper "
                "chain of seeded random programs; non-trivial & distinct = distinct pairs whose legal parameters come from at least two different signatures "
                "(something really is resolved through **kwargs) or that hit a named deviation")
    rep.exhaustive = False
    rep.explanation = (f"MC_Resolver enumerated exhaustively every program within its bounds ({n_states} states, one per program prefix) and checked the laws of the "
                       f"reference and Alg-refines-Ref on each; {len(cases)} of them were written to source files and run on the interpreter ({n_calls} calls) and on "
                       f"jsonargparse; {len(recs)} components of {nprog} random programs beyond the bounds were observed and validated by TLC against Trace_Resolver")
    return rep.finish()


def replay(path):
    """./check C13 --replay <file>: write the recorded program to a source file again and show what the real code does"""
    d = json.loads(open(path).read())
    case = d["case"]
    prog, comp = case["program"], case["component"]
    chain = comp["chain"] if comp["k"] == "fn" else None
    source, decls, vals = render(prog, chain)
    sc = Scratch("replay")
    try:
        mod, mpath = sc.load(source)
        target = getattr(mod, f"C{comp['c']}") if comp["k"] == "cls" else getattr(mod, "f0_1")
        offer = case.get("spec_offer")
        obs = observe_component(mod, target, comp["k"] == "cls", universe(prog, chain), vals,
                                {x["n"]: x for x in offer} if offer else None, with_table=True,
                                cvs=(False, True) if has_if(prog, chain) else (False,))
        print(source)
        print("key:", d.get("key"))
        print("what:", d.get("what"))
        print("interpreter (accepted keyword sets / bindings):", json.dumps(summarise(obs["table"])))
        print("specification, legal parameters:", json.dumps(offer))
        print("get_signature_parameters:", json.dumps(obs["resolved"]))
        print("parser:", json.dumps(obs["parser"]))
        print("instantiate with every offered parameter:", json.dumps(obs.get("inst")))
    finally:
        sc.close()
    return 0


if __name__ == "__main__":
    args = sys.argv[1:]
    if args and args[0] == "--replay":
        sys.exit(replay(args[1]))
    sys.exit(main(args))
