"""C10 — parse results are fixed points: re-parsing or validating changes nothing.

  MC      tlc MC_Types (cfg MC_Types_c10_*): the invariants Idempotent (AlgParse(t, AlgParse(t, x)) = AlgParse(t, x))
          and DumpStable (the config representation of a result is a fixed point of dump o parse) are checked by
          TLC on every (type, input) of the bounded grammar, next to the C02 invariants they rest on; every case
          that the Alg layer accepts is printed.
  REPLAY  (spec -> code) every printed case is executed on the real jsonargparse through parse_object and, for
          texts, parse_args; on the accepted result: parser.validate(cfg), parser.parse_object(cfg) == cfg,
          dump -> parse_string -> dump byte for byte (format yaml and json).
  TRACE   (code -> spec) the same for seeded random type hints up to depth 4.
  Every recorded observation (type, first result, validate, second result, dumps) is validated by TLC against
  Trace_Types.CheckFix: the Ref clauses (validate passes, second = first, dumps identical) decide the verdict,
  the Alg clauses (the transcription predicts the same second result and config representation) are drift.
"""
from __future__ import annotations

import json
import multiprocessing as mp
import os
import sys

import yaml

from ..lib import common, tlc
from ..lib.evidence import Report, machinery_failure
from . import c02 as ty  # gamma / alpha / generators of the Types subsystem (also checks the import of jsonargparse)

from jsonargparse import ArgumentError  # noqa: E402

PID = "C10"
NONE = {"k": "none", "v": 0}
KEY = ty.KEY


def observe_fix(parser, tp, x, chan):
    """one accepted parse and what happens to its result afterwards"""
    try:
        if chan == "obj":
            cfg = parser.parse_object({KEY: ty.gamma_val(x)})
        else:
            cfg = parser.parse_args([f"--{KEY}={x['v']}"])
    except Exception:
        return None  # rejected: nothing to re-parse (C02 compares the verdict)
    try:
        first = ty.alpha_val(cfg[KEY])
    except ty.NotAbstractable as ex:
        return {"error": f"result outside the model: {ex}"}
    o = {"kind": "fix", "first": first, "vok": True, "sok": True, "second": {"k": "none", "v": 0}, "rok": True, "dsame": True,
         "jrok": True, "jdsame": True, "draised": False, "jdraised": False, "ser": dict(NONE), "ser2": dict(NONE), "jser": dict(NONE), "jser2": dict(NONE), "notes": {}}
    try:
        parser.validate(cfg.clone())
    except Exception as ex:
        o["vok"] = False
        o["notes"]["validate"] = f"{type(ex).__name__}: {str(ex)[:200]}"
    try:
        again = parser.parse_object(cfg.clone())
        try:
            o["second"] = ty.alpha_val(again[KEY])
        except ty.NotAbstractable as ex:
            o["second"] = {"k": "other", "v": str(ex)}
        o["notes"]["py_eq"] = bool(again == cfg)
    except Exception as ex:
        o["sok"] = False
        o["notes"]["second"] = f"{type(ex).__name__}: {str(ex)[:200]}"
    for fmt, rk, dk, sk in (("yaml", "rok", "dsame", "ser"), ("json", "jrok", "jdsame", "jser")):
        stock = yaml.safe_load if fmt == "yaml" else json.loads  # the dumped tree, read by a stock loader
        try:
            d1 = parser.dump(cfg.clone(), format=fmt)
        except Exception as ex:
            o[rk] = o[dk] = False
            o["draised" if fmt == "yaml" else "jdraised"] = True
            o["notes"][fmt] = f"dump raised {type(ex).__name__}: {str(ex)[:200]}"
            continue
        o[sk] = tree_of(stock, d1)
        try:
            back = parser.parse_string(d1)
            d2 = parser.dump(back, format=fmt)
            o[dk] = d1 == d2
            o[sk + "2"] = tree_of(stock, d2)
            if d1 != d2:
                o["notes"][fmt] = f"first dump {d1!r}, second dump {d2!r}"
        except ArgumentError as ex:
            o[rk] = o[dk] = False
            o["notes"][fmt] = f"dump {d1!r} does not re-parse: {str(ex)[:200]}"
        except Exception as ex:
            o[rk] = o[dk] = False
            o["notes"][fmt] = f"dump {d1!r}: {type(ex).__name__}: {str(ex)[:200]}"
    return o


def tree_of(stock, text):
    try:
        return ty.alpha_val(stock(text).get(KEY))
    except Exception as ex:
        return {"k": "other", "v": f"{type(ex).__name__}: {ex}"[:80]}


def _work(job):
    t, xs = job
    try:
        tp = ty.gamma_type(t)
        if ty.canon(ty.alpha_type(tp)) != ty.canon(t):
            return {"t": t, "error": "typing changed the hint"}
        parser = ty.make_parser(tp)
    except Exception as ex:
        return {"t": t, "error": f"add_argument: {type(ex).__name__}: {ex}"}
    out = []
    for x in xs:
        out.append([observe_fix(parser, tp, x, ch) for ch in ty.channels(x)])
    return {"t": t, "out": out}


def run_jobs(jobs, procs=16):
    if not jobs:
        return []
    with mp.get_context("fork").Pool(min(procs, len(jobs))) as pool:
        return pool.map(_work, jobs, chunksize=max(1, len(jobs) // (procs * 8)))


DUMP_KEYS = {"setOrder": "set-order", "reparseShift": "reparse-first-match-shift", "firstMatch": "union-first-match", "leftTuple": "tuple-left-unserialised", "jsonKeyCollision": "json-key-collision", "serLenient": "serialize-lenient-member", "setListing": "set-listing-order", "serCollision": "set-written-with-duplicates", "yamlFloatStr": "yaml-float-string", "inPlace": "reparse-union-in-place",
             "leftObject": "enum-member-first-leaves-object", "leftSet": "enum-member-first-leaves-set",
             "excLeak": "reparse-union-vals-last", "origNested": "reparse-union-orig-nested", "litEq": "reparse-literal-eq", "dictKey": "reparse-dict-key"}


def main(argv):
    tier = "thorough" if (argv and argv[0] == "thorough") else "quick"
    rep = Report(PID, tier)
    ty.load_known(rep)
    rnd = common.rng(PID)
    workers = int(os.environ.get("VERIF_TLC_WORKERS", "16"))
    rep.assumptions = [
        "one key of the given type per parser, parser_mode yaml, default None; results are compared as abstract values (kind and value at every level), which is stricter than Python's == (1 == 1.0 == True)",
        "validate, the second parse and the dumps each get a clone of the result, so that one observation cannot disturb the next",
        "the byte-level behaviour of PyYAML / json is not modelled: the specification predicts the dumped TREE (checked as drift), the byte comparison is real against real and TLC evaluates the recorded outcome",
        "texts come from the vocabulary of spec/Types.tla or are plain words; input sets are excluded from the random traces; see C02 for the grammar",
    ]

    cfgname = f"MC_Types_c10_{tier}"
    mc = tlc.run("MC_Types", cfgname, workers=workers, timeout=3000, heap="12g")
    rep.add_tlc(cfgname, mc)
    if mc.errors:
        if mc.violated:
            laws = sorted({p[1] for p in mc.printed if isinstance(p, list) and p and p[0] == "LAW"})
            rep.violation("model:" + ",".join(sorted(set(mc.violated)) + laws), f"TLC: {sorted(set(mc.violated))} {laws} violated in the bounded model",
                          {"tlc_errors": mc.errors[:5], "counterexample": mc.cex[:4000]})
            return rep.finish()
        machinery_failure(PID, "TLC failed on MC_Types:\n" + mc.stdout[-3000:])
    types = [p["type"] for p in mc.printed if isinstance(p, dict) and "type" in p]
    cases = [p for p in mc.printed if isinstance(p, dict) and "acc" in p]
    vocab = [p for p in mc.printed if isinstance(p, dict) and "vocabulary" in p]
    if not cases or not vocab or not types or any(not c["aok"] for c in cases):
        machinery_failure(PID, f"TLC printed {len(types)} types, {len(cases)} accepted cases, {len(vocab)} vocabularies")
    ty.TEXTS = sorted({row[0] for row in vocab[0]["vocabulary"]} | ty.FIXED_WORDS)
    cases.sort(key=lambda c: (ty.canon(c["t"]), ty.canon(ty.norm(c["x"]))))

    by_type = {}
    for c in cases:
        by_type.setdefault(ty.canon(c["t"]), []).append(c)
    jobs = [(cs[0]["t"], [c["x"] for c in cs]) for _, cs in sorted(by_type.items())]
    ntypes, per_type = (200, 14) if tier == "quick" else (2500, 20)
    rjobs = ty.random_cases(rnd, ntypes, per_type)
    results = run_jobs(jobs + rjobs)

    obs, meta = [], []
    stats = {"model_cases_alg_accepts": len(cases), "model_types": len(types), "rejected_by_real_code": 0, "py_eq_false": 0, "unbuildable_types": 0,
             "random_types": len(rjobs)}
    for n, ((t, xs), r) in enumerate(zip(jobs + rjobs, results)):
        src = "model" if n < len(jobs) else "random"
        if "error" in r:
            stats["unbuildable_types"] += 1  # reported by C02
            continue
        for x, outs in zip(xs, r["out"]):
            for ch, o in zip(ty.channels(x), outs):
                if o is None:
                    stats["rejected_by_real_code"] += src == "model"
                    continue
                if "error" in o:
                    rep.violation(f"unknown-result:{ty.shape(t, x)}", o["error"], {"t": t, "x": x})
                    continue
                notes = o.pop("notes")
                if notes.get("py_eq") is False:
                    stats["py_eq_false"] += 1
                o["t"] = t
                obs.append(o)
                meta.append({"x": x, "chan": ch, "notes": notes, "src": src})
                if o["first"]["k"] in ("list", "tuple", "set", "dict", "enum") or t["k"] == "union":
                    rep.note_nontrivial(ty.canon(t) + "|" + ty.canon(o["first"]))
    stats["observations_model"] = sum(1 for m in meta if m["src"] == "model")
    stats["observations_random"] = sum(1 for m in meta if m["src"] == "random")

    rejects = ty.validate_observations(rep, obs, "c10", workers)
    by_obs = {}
    for kind, idx, clause in rejects:
        by_obs.setdefault(idx, []).append(clause)
    for n, o in enumerate(obs, 1):
        cl = by_obs.get(n, [])
        if not cl:
            continue
        m = meta[n - 1]
        t = o["t"]
        info = {"type": ty.type_str(t), "t": t, "x": m["x"], "channel": m["chan"], "python": ty.python_repro(t, m["x"], m["chan"]) + "  # then validate / parse_object / dump on the result",
                "observation": o, "notes": m["notes"], "failed_clauses": cl, "source": m["src"]}
        where = f"{ty.type_str(t)}:{ty.canon(ty.norm(o['first']))[:60]}"
        ref = [c for c in cl if c.startswith("ref")]
        if not ref:
            rep.add_drift("real code is a fixed point as the property says, but not as the Alg transcription predicts", info)
            continue
        for c in ref:
            if c == "ref/validate":
                rep.violation(f"validate-rejects-result:{where}", f"{ty.type_str(t)}: validate() rejects the parse result {ty.gamma_repr(o['first'])}: {m['notes'].get('validate')}", info)
            elif c.startswith("ref/second/as-alg/"):
                for d in sorted(x_ for x_ in c.split("/as-alg/")[1].split("+") if x_):
                    rep.violation(f"second-parse:{ty.DEV_KEYS.get(d, DUMP_KEYS.get(d, d))}/as-alg:{where}", f"{ty.type_str(t)}: parse_object of the result {ty.gamma_repr(o['first'])} gives "
                                  + (ty.canon(o["second"]) if o["sok"] else "an error: " + str(m["notes"].get("second"))) + f"; named deviation {d} of spec/Types.tla", info)
            elif c.startswith("ref/second"):
                rep.violation(f"second-parse/other:{where}", f"{ty.type_str(t)}: parse_object of the result {ty.gamma_repr(o['first'])} gives "
                              + (ty.canon(o["second"]) if o["sok"] else "an error: " + str(m["notes"].get("second"))), info)
            elif "/as-alg/" in c:
                fmt = "yaml" if c.startswith("ref/dump/") else "json"
                for d in sorted(x_ for x_ in c.split("/as-alg/")[1].split("+") if x_):
                    rep.violation(f"dump:{DUMP_KEYS.get(d, d)}/as-alg:{fmt}:{where}", f"{ty.type_str(t)}: dump -> parse -> dump ({fmt}) of {ty.gamma_repr(o['first'])} is not stable "
                                  f"({m['notes'].get(fmt)}); named deviation {d} of spec/Types.tla", info)
            else:
                fmt = "yaml" if c.startswith("ref/dump/") else "json"
                rep.violation(f"dump/other:{fmt}:{where}", f"{ty.type_str(t)}: dump -> parse -> dump ({fmt}) of {ty.gamma_repr(o['first'])} is not stable: {m['notes'].get(fmt)}", info)
    ty.finish_stats(rep)
    for o, m in list(zip(obs, meta))[:: max(1, len(obs) // 4)][:4]:
        rep.sample({"type": ty.type_str(o["t"]), "input": ty.gamma_repr(m["x"]), "channel": m["chan"], "first": o["first"], "second": o["second"],
                    "validate_ok": o["vok"], "yaml_dumps_identical": o["dsame"], "json_dumps_identical": o["jdsame"], "dumped_tree": o["ser"], "validated_by": "Trace_Types.CheckFix"})
    rep.traces = len(obs)
    rep.evaluations = len(obs)
    rep.extra.update(stats)
    rep.rule = ("cases = accepted parses: every (type hint, input) of the bounded grammar that the Alg layer accepts (printed by TLC) and seeded random hints up to depth 4, "
                "through parse_object and, for texts, parse_args; each result is validated, parsed again as an object, dumped / re-parsed / dumped in yaml and json. "
                "non-trivial & distinct = distinct (hint, first result) pairs whose result is a container or enum member or whose hint is a Union")
    rep.exhaustive = False
    rep.explanation = (f"MC_Types checked Idempotent and DumpStable on all {mc.distinct - len(types)} (type, input) cases of its bounded grammar ({len(types)} type terms); "
                       f"the {len(cases)} cases that Alg accepts were replayed on the real code and {stats['observations_random']} further accepted parses came from {len(rjobs)} random hints; "
                       f"all {len(obs)} observations were validated by TLC against Trace_Types.CheckFix. The grammar is unbounded, so the run is not exhaustive for the property.")
    return rep.finish()


def replay(path) -> int:
    """./check C10 --replay <file>: run the recorded case again on the real code and show it next to the record."""
    rec = json.loads(open(path).read())
    case = rec.get("case", {})
    print(f"property={rec.get('property')} key={rec.get('key')}\n  what: {rec.get('what')}")
    if "t" in case and "x" in case:
        tp = ty.gamma_type(case["t"])
        ch = case.get("channel") or "obj"
        now = observe_fix(ty.make_parser(tp), tp, case["x"], ch)
        print(f"  now ({ch}): {case.get('python')}\n    -> {json.dumps(now)[:3000]}")
        print("  recorded: " + json.dumps({k: case[k] for k in ("observation", "notes", "failed_clauses") if k in case})[:3000])
    return 0


if __name__ == "__main__":
    args = sys.argv[1:]
    if args and args[0] == "--replay":
        sys.exit(replay(args[1]))
    sys.exit(main(args))
