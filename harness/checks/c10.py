"""C10 — parse results are fixed points: re-parsing or validating changes nothing.

  MC      tlc MC_Types (cfg MC_Types_c10_*): the laws Idempotent (AlgParse(t, AlgParse(t, x)) = AlgParse(t, x)) and
          DumpStable (the config representation of a result is a fixed point of dump o parse) are checked by TLC on every
          (type, default, input) of the bounded grammar, also for the key NOT given (defaults filled in by parse_object /
          parse_args); every case that the Alg layer accepts is printed.
  REPLAY  (spec -> code) every printed case is executed on the real jsonargparse:
            given values     parse_object({key: x}) and, for texts, parse_args(['--key=' + text]); accepted dict values are also
                             written to a config FILE that is given to an enable_path=True argument (result with __path__ meta);
            key not given    parse_object({}) and parse_args([]) with the default declared in three ways: add_argument(default=),
                             add_class_arguments of a class whose signature has the default, and a class-typed option;
          on the accepted result: parser.validate(cfg), parser.parse_object(cfg) == cfg (meta included, kind-exact),
          dump -> parse_string -> dump byte for byte (format yaml and json).
  TRACE   (code -> spec) the same for seeded random type hints up to depth 4, for class specs (opaque values: List[Base], ...) and,
          round 4, for class specs given through a Callable type (Callable[..., Base], Callable[[int], Base], Optional[...]) next to
          the same spec given through the plain class type: Trace_Types.CheckCallableSpec (fixed point; dumped tree = SerForm(value)).
  Every recorded observation is validated by TLC against Trace_Types.CheckFix: the Ref clauses (validate passes, second =
  first, dumps identical) decide the verdict, the Alg clauses (the transcription predicts the same first / second result and
  config representation) are drift.
"""
from __future__ import annotations

import copy
import dataclasses
import json
import os
import pathlib
import sys
from datetime import timedelta
from typing import Callable, Dict, List, Optional, Set, Tuple

import yaml

from ..lib import common, tlc
from ..lib.evidence import Report, machinery_failure
from . import c02 as ty  # gamma / alpha / generators of the Types subsystem (also checks the import of jsonargparse)

from jsonargparse import ArgumentError, ArgumentParser, Namespace  # noqa: E402

PID = "C10"
KEY = ty.KEY
NONE = ty.NONE
_CLASSES = 0


def make_class(tp, default):
    """a class whose signature is  __init__(self, x: tp = default), importable as harness.checks.c10.<name>"""
    global _CLASSES
    _CLASSES += 1

    def __init__(self, x=default):
        self.x = x

    __init__.__annotations__ = {"x": tp}
    cls = type(f"Sig{os.getpid()}_{_CLASSES}", (), {"__init__": __init__})
    cls.__module__ = __name__
    globals()[cls.__name__] = cls
    return cls


def make_dataclass(tp, default=dataclasses.MISSING):
    """a dataclass with the single field  x: tp [= default]"""
    global _CLASSES
    _CLASSES += 1
    if default is dataclasses.MISSING:
        field = dataclasses.field()
    elif isinstance(default, (list, dict, set)):
        field = dataclasses.field(default_factory=lambda: default)
    else:
        field = dataclasses.field(default=default)
    cls = dataclasses.make_dataclass(f"Data{os.getpid()}_{_CLASSES}", [("x", tp, field)])
    cls.__module__ = __name__
    globals()[cls.__name__] = cls
    return cls


def build(tp, d, style, enable_path=False):
    """-> (parser, key of the value, object to give to parse_object when the key itself is not given, argv for the same)"""
    if style == "plain":
        return ty.make_parser(tp, d, enable_path), KEY, {}, []
    if style == "dataclass":
        p = ArgumentParser(exit_on_error=False)
        p.add_class_arguments(make_dataclass(tp, ty.gamma_val(d)), "c")
        return p, "c.x", {}, []
    cls = make_class(tp, ty.gamma_val(d))
    p = ArgumentParser(exit_on_error=False)
    if style == "classargs":
        p.add_class_arguments(cls, "c")
        return p, "c.x", {}, []
    p.add_argument("--c", type=cls)  # class-typed option: only the class is given, init_args come from the signature
    path = f"{__name__}.{cls.__name__}"
    return p, "c.init_args.x", {"c": {"class_path": path}}, [f"--c={path}"]


def dig(tree, key):
    for part in key.split("."):
        tree = tree.get(part) if isinstance(tree, dict) else None
    return tree


def tree_of(stock, text, key):
    try:
        return ty.alpha_val(dig(stock(text), key))
    except Exception as ex:
        return {"k": "other", "v": f"{type(ex).__name__}: {ex}"[:80]}


def restricted_instances(v, out=None):
    """the numbers / texts in a real result that are instances of a restricted class (sub-classes of int / float / str)"""
    out = [] if out is None else out
    if type(v) in ty.RSTR_INV or type(v) in ty.RNUM_INV:
        a = ty.alpha_val(v)
        if a not in out:
            out.append(a)
    elif isinstance(v, (list, tuple, set, frozenset)):
        for e in v:
            restricted_instances(e, out)
    elif isinstance(v, dict):
        for e in v.values():
            restricted_instances(e, out)
    return out


def observe_fix(parser, key, call, alpha=None):
    """one accepted parse (call() -> cfg) and what happens to its result afterwards"""
    alpha = alpha or ty.alpha_val
    try:
        cfg = call()
    except Exception:
        return None  # rejected: nothing to re-parse (C02 compares the verdict)
    try:
        first = alpha(cfg[key])
    except ty.NotAbstractable as ex:
        return {"error": f"result outside the model: {ex}"}
    o = {"kind": "fix", "first": first, "inst": restricted_instances(cfg[key]) if alpha is ty.alpha_val else [], "vok": True, "sok": True, "second": dict(NONE), "rok": True, "dsame": True, "jrok": True, "jdsame": True,
         "draised": False, "jdraised": False, "ser": dict(NONE), "ser2": dict(NONE), "jser": dict(NONE), "jser2": dict(NONE),
         "after": first, "tok": True, "third": first, "notes": {}}
    try:
        parser.validate(copy.deepcopy(cfg))  # (clone() shares tuples: a leak would reach cfg)
    except Exception as ex:
        o["vok"] = False
        o["notes"]["validate"] = f"{type(ex).__name__}: {str(ex)[:200]}"
    try:
        again = parser.parse_object(copy.deepcopy(cfg))
        try:
            o["second"] = alpha(again[key])
        except ty.NotAbstractable as ex:
            o["second"] = {"k": "other", "v": str(ex)}
        o["notes"]["py_eq"] = bool(again == cfg)
    except Exception as ex:
        o["sok"] = False
        o["notes"]["second"] = f"{type(ex).__name__}: {str(ex)[:200]}"
    for fmt, rk, dk, sk in (("yaml", "rok", "dsame", "ser"), ("json", "jrok", "jdsame", "jser")):
        stock = yaml.safe_load if fmt == "yaml" else json.loads  # the dumped tree, read by a stock loader
        try:
            d1 = parser.dump(copy.deepcopy(cfg), format=fmt)
        except Exception as ex:
            o[rk] = o[dk] = False
            o["draised" if fmt == "yaml" else "jdraised"] = True
            o["notes"][fmt] = f"dump raised {type(ex).__name__}: {str(ex)[:200]}"
            continue
        o[sk] = tree_of(stock, d1, key)
        try:
            back = parser.parse_string(d1)
            d2 = parser.dump(back, format=fmt)
            o[dk] = d1 == d2
            o[sk + "2"] = tree_of(stock, d2, key)
            if d1 != d2:
                o["notes"][fmt] = f"first dump {d1!r}, second dump {d2!r}"
        except ArgumentError as ex:
            o[rk] = o[dk] = False
            o["notes"][fmt] = f"dump {d1!r} does not re-parse: {str(ex)[:200]}"
        except Exception as ex:
            o[rk] = o[dk] = False
            o["notes"][fmt] = f"dump {d1!r}: {type(ex).__name__}: {str(ex)[:200]}"
    # ... and once more as a SEQUENCE on the one object: validate(cfg); dump(cfg); cfg must be what it was and still a fixed point
    try:
        parser.validate(cfg)
        parser.dump(cfg)
    except Exception as ex:
        o["notes"]["sequence"] = f"{type(ex).__name__}: {str(ex)[:160]}"  # (the clauses above already tell)
    try:
        o["after"] = alpha(cfg[key])
    except Exception as ex:
        o["after"] = {"k": "other", "v": f"{type(ex).__name__}: {ex}"[:80]}
    try:
        o["third"] = alpha(parser.parse_object(cfg)[key])
    except ty.NotAbstractable as ex:
        o["third"] = {"k": "other", "v": str(ex)}
    except Exception as ex:
        o["tok"] = False
        o["notes"]["third"] = f"{type(ex).__name__}: {str(ex)[:200]}"
    return o


def jsonable(x) -> bool:
    """can the value be written to a JSON config file as it is (no tuple / set / enum / path / non-str key)?"""
    k = x["k"]
    if k in ("none", "bool", "int", "str"):
        return True
    if k == "list":
        return all(jsonable(e) for e in x["v"])
    if k == "dict":
        return all(p[0]["k"] == "str" and jsonable(p[1]) for p in x["v"])
    return False


_FILES = 0


def chans(x, quick):
    """the channels of a given value; quick: a text that is a plain scalar for the loader goes through parse_object only
    (_check_type receives the same string either way), texts that load as null / a list / a dict go through both"""
    if x["k"] != "str":
        return ["obj"]
    s = x["v"].strip()
    if not quick or s[:1] in "[{-~" or ":" in s or s.lower() == "null":
        return ["obj", "arg"]
    return ["obj"]


def _work(job):
    """pool worker: one (type term, default), many inputs; runs in a scratch working directory (c02.run_jobs)"""
    global _FILES
    t, d, xs, quick = job
    try:
        tp = ty.gamma_type(t)
        if ty.canon(ty.alpha_type(tp)) != ty.canon(t):
            return {"t": t, "error": "typing changed the hint"}
        parser = ty.make_parser(tp, d)
        fparser = dparser = eparser = None
        special = bool(ty.kinds_in(t) & set(ty.DEFLEAF))  # restricted / registered types: also as a dataclass field, from the environment, from a config
    except Exception as ex:
        return {"t": t, "error": f"add_argument: {type(ex).__name__}: {ex}"}
    out = []
    for x in xs:
        rows = []
        if x["k"] == "absent":  # the key is not given: the default is filled in
            for style in ("plain", "classargs", "dataclass", "subclass"):
                try:
                    p, key, obj, argv = build(tp, d, style)
                except Exception as ex:
                    rows.append((f"{style}/obj", {"error": f"{style}: {type(ex).__name__}: {str(ex)[:160]}"}, {}))
                    continue
                for ch in ("obj", "arg"):
                    call = (lambda p=p, obj=obj: p.parse_object(json.loads(json.dumps(obj)))) if ch == "obj" else (lambda p=p, argv=argv: p.parse_args(list(argv)))
                    # Alg: parse_object runs the defaults through _check_type, parse_args takes them as they are; a class-typed
                    # option gets its init_args from a nested parse_object in both cases
                    rows.append((f"{style}/{ch}", observe_fix(p, key, call), {"absent": True, "norm": ch == "obj" or style == "subclass", "x": dict(NONE)}))
        else:
            for ch in chans(x, quick):
                call = (lambda x=x: parser.parse_object({KEY: ty.gamma_val(x)})) if ch == "obj" else (lambda x=x: parser.parse_args([f"--{KEY}={x['v']}"]))
                rows.append((ch, observe_fix(parser, KEY, call), {"absent": False, "norm": True, "x": x}))
            if special and rows[0][1] is not None:
                try:
                    if dparser is None:
                        dparser = ArgumentParser(exit_on_error=False)
                        dparser.add_class_arguments(make_dataclass(tp), "c")
                    rows.append(("dc/obj", observe_fix(dparser, "c.x", lambda x=x: dparser.parse_object({"c": {"x": ty.gamma_val(x)}})), {"absent": False, "norm": True, "x": x}))
                    if x["k"] == "str":
                        eparser = eparser or ty.make_parser(tp, d, default_env=True, env_prefix="APP")

                        def from_env(text=x["v"]):
                            os.environ["APP_" + KEY.upper()] = text  # forked worker: the environment of the harness is not touched
                            try:
                                return eparser.parse_args([])
                            finally:
                                del os.environ["APP_" + KEY.upper()]

                        rows.append(("env", observe_fix(eparser, KEY, from_env), {"absent": False, "norm": True, "x": x}))
                        rows.append(("cfg", observe_fix(parser, KEY, lambda x=x: parser.parse_string(yaml.safe_dump({KEY: x["v"]}))), {"absent": False, "norm": True, "x": x}))
                except Exception as ex:
                    rows.append(("dc/obj", {"error": f"extra channels: {type(ex).__name__}: {str(ex)[:160]}"}, {}))
            if x["k"] == "dict" and x["v"] and rows[0][1] is not None and jsonable(x):  # an accepted dict also from a config file given to an enable_path argument
                try:
                    fparser = fparser or ty.make_parser(tp, d, enable_path=True)
                    _FILES += 1
                    name = f"in{os.getpid()}_{_FILES}.json"
                    with open(name, "w") as f:
                        json.dump(ty.gamma_val(x), f)
                    fx = {"k": "file", "v": [name, x]}
                    rows.append(("file/obj", observe_fix(fparser, KEY, lambda: fparser.parse_object({KEY: name})), {"absent": False, "norm": True, "x": fx}))
                    rows.append(("file/arg", observe_fix(fparser, KEY, lambda: fparser.parse_args([f"--{KEY}={name}"])), {"absent": False, "norm": True, "x": fx}))
                except Exception as ex:
                    rows.append(("file/obj", {"error": f"file channel: {type(ex).__name__}: {str(ex)[:160]}"}, {}))
        out.append(rows)
    return {"t": t, "out": out}


# ---------------------------------------------------------------- class-typed options (opaque for the Alg layer: classes are C14's)
@dataclasses.dataclass
class Inner:
    a: int = 1
    e: ty.E = ty.E.B


class Base:
    pass


class Sub1(Base):
    def __init__(self, e: ty.E = ty.E.A, t: timedelta = timedelta(days=1), n: int = 0):
        pass


class Sub2(Base):
    def __init__(self, inner: Inner = Inner(a=2), es: List[ty.E] = (ty.E.A,)):
        pass


class Sub3(Base):  # round 4: no init arg is a plain scalar once parsed; the first parameter is the one a Callable[[int], Base] leaves to its caller
    def __init__(self, n: int = 0, e: ty.E = ty.E.A, tp: Tuple[int, int] = (1, 2), s: Set[int] = {1}, p: pathlib.Path = pathlib.Path("x"),  # noqa: B006
                 t: timedelta = timedelta(days=1), inner: Inner = Inner(a=2)):
        pass


class Sub4(Base):
    def __init__(self, n: int = 0, es: List[ty.E] = (ty.E.A,), d: Optional[Dict[str, Tuple[int, int]]] = None, o: Optional[ty.E] = None, t: Optional[timedelta] = None):
        pass


def alpha_any(v):
    """like alpha_val, with Namespaces (kind ns) kept apart from dicts"""
    if isinstance(v, pathlib.PurePath):
        return {"k": "pypath", "v": str(v)}
    if isinstance(v, Namespace):
        return {"k": "ns", "v": [[{"k": "str", "v": str(k)}, alpha_any(x)] for k, x in vars(v).items()]}
    if type(v) is dict:
        return {"k": "dict", "v": [[alpha_any(k), alpha_any(x)] for k, x in v.items()]}
    if type(v) is list:
        return {"k": "list", "v": [alpha_any(e) for e in v]}
    if type(v) is tuple:
        return {"k": "tuple", "v": [alpha_any(e) for e in v]}
    try:
        return ty.alpha_val(v)
    except ty.NotAbstractable as ex:
        return {"k": "other", "v": str(ex)}


def opaque_jobs():
    s1 = {"class_path": f"{__name__}.Sub1", "init_args": {"e": "B", "t": "25:00:00", "n": "3"}}
    s1d = {"class_path": f"{__name__}.Sub1"}
    s2 = {"class_path": f"{__name__}.Sub2", "init_args": {"inner": {"a": 3, "e": "A"}, "es": ["A", "B"]}}
    return [("Base", [s1, s1d, s2]), ("List[Base]", [[s1], [s1, s2], [s2, s1d], []]), ("Dict[str,List[Base]]", [{"x": [s1, s2]}, {"x": [s1d], "y": [s2, s1]}])]


def _work_opaque(job):
    label, values = job
    tp = {"Base": Base, "List[Base]": List[Base], "Dict[str,List[Base]]": Dict[str, List[Base]]}[label]
    parser = ty.make_parser(tp)
    out = []
    for val in values:
        for ch in ("obj", "arg"):
            call = (lambda: parser.parse_object({KEY: json.loads(json.dumps(val))})) if ch == "obj" else (lambda: parser.parse_args([f"--{KEY}={json.dumps(val)}"]))
            out.append((ch, val, observe_fix(parser, KEY, call, alpha=alpha_any)))
    return {"label": label, "out": out}


CALLABLE_TYPES = {"Callable[...,Base]": Callable[..., Base], "Callable[[int],Base]": Callable[[int], Base], "Optional[Callable[[int],Base]]": Optional[Callable[[int], Base]]}
SKIPPED = "n"  # Callable[[int], Base] / Callable[..., Base]: skip_args = 1, the first parameter of the class is the caller's


def callable_jobs(tier):
    """class specs given through a Callable type, each next to the route through the plain class type (`--m: Base`)"""
    c3, c4 = f"{__name__}.Sub3", f"{__name__}.Sub4"
    vals = [{"class_path": c3, "init_args": {"e": "B", "tp": [3, 4], "s": [5, 6], "p": "some/dir", "t": "25:00:00", "inner": {"a": 3, "e": "A"}}},
            {"class_path": c3},
            {"class_path": c3, "init_args": {"tp": [0, -1], "s": [], "t": "1:00:00"}},
            {"class_path": c4, "init_args": {"es": ["A", "B", "A"], "d": {"x": [1, 2], "y": [3, 4]}, "o": "B", "t": "24:00:00"}},
            {"class_path": c4}]
    if tier != "quick":
        vals += [{"class_path": c3, "init_args": {"e": "A", "inner": {"e": "B"}, "p": "/abs/file.txt", "s": [2, 1, 3]}},
                 {"class_path": c3, "init_args": {"inner": {"a": "7"}, "t": "0:00:00.5", "tp": ["1", "2"]}},
                 {"class_path": c4, "init_args": {"es": [], "d": {}, "t": "-1 day, 23:00:00"}},
                 {"class_path": c4, "init_args": {"d": {"k": ["5", 6]}, "o": None}},
                 {"class_path": "Sub3", "init_args": {"e": "B"}}, "Sub4", c3]
    return [(label, [val]) for label in CALLABLE_TYPES for val in vals]  # one job per (type, spec): they run side by side


def _work_callable(job):
    label, values = job
    parser = ty.make_parser(CALLABLE_TYPES[label])
    plain = ty.make_parser(Base)
    out = []
    for val in values:
        pval = json.loads(json.dumps(val))
        if isinstance(pval, str):
            pval = {"class_path": pval}
        pval.setdefault("init_args", {})[SKIPPED] = 7
        po = observe_fix(plain, KEY, lambda: plain.parse_object({KEY: json.loads(json.dumps(pval))}), alpha=alpha_any)
        for ch in ("obj", "arg"):
            text = val if isinstance(val, str) else json.dumps(val)
            call = (lambda: parser.parse_object({KEY: json.loads(json.dumps(val))})) if ch == "obj" else (lambda: parser.parse_args([f"--{KEY}={text}"]))
            o = observe_fix(parser, KEY, call, alpha=alpha_any)
            if o is not None and "error" not in o and po is not None and "error" not in po:
                o.update({"pfirst": po["first"], "pser": po["ser"], "pjser": po["jser"], "skip": SKIPPED})
                o["notes"]["plain_route"] = {"given": pval, "yaml_raised": po["draised"], "json_raised": po["jdraised"]}
            elif o is not None and "error" not in o:
                o = {"error": f"the same spec is not accepted through the plain class type Base: {po}"}
            out.append((ch, val, o))
    return {"label": label, "out": out}


DUMP_KEYS = {"setOrder": "set-order", "reparseShift": "reparse-first-match-shift", "jsonKeyCollision": "json-key-collision", "firstMatch": "union-first-match",
             "leftTuple": "tuple-left-unserialised", "serLenient": "serialize-lenient-member", "setListing": "set-listing-order",
             "serCollision": "set-written-with-duplicates", "yamlFloatStr": "yaml-float-string", "inPlace": "reparse-union-in-place",
             "leftObject": "enum-member-first-leaves-object", "leftSet": "enum-member-first-leaves-set", "rawDefault": "raw-default", "noneOverDefault": "none-over-default",
             "origNested": "reparse-union-orig-nested", "litEq": "reparse-literal-eq", "dictKey": "reparse-dict-key",
             "leftInstance": "restricted-instance-left"}


def main(argv):
    tier = "thorough" if (argv and argv[0] == "thorough") else "quick"
    rep = Report(PID, tier)
    rnd = common.rng(PID)
    workers = int(os.environ.get("VERIF_TLC_WORKERS", "4" if tier == "quick" else "16"))  # quick: fewer workers cost fewer CPU seconds
    rep.assumptions = [
        "one value per parser (key k; c.x / c.init_args.x for the class styles), parser_mode yaml; results are compared as abstract values (kind and value at every level, __path__ meta included), which is stricter than Python's == (1 == 1.0 == True)",
        "validate, the second parse and the dumps each get a clone of the result, so that one observation cannot disturb the next; every worker runs in its own scratch working directory",
        "the byte-level behaviour of PyYAML / json is not modelled: the specification predicts the dumped TREE (checked as drift), the byte comparison is real against real and TLC evaluates the recorded outcome",
        "texts come from the vocabulary of spec/Types.tla or are plain words; input sets are excluded from the random traces; see C02 for the grammar",
    ]

    cfgname = f"MC_Types_c10_{tier}"
    mc = tlc.run("MC_Types", cfgname, workers=workers, timeout=3000, heap="12g")
    rep.add_tlc(cfgname, mc)
    if mc.errors:
        if mc.violated:
            laws = sorted({p[1] for p in mc.printed if isinstance(p, list) and p and p[0] == "LAW"})
            rep.violation("model:" + ",".join(sorted(set(mc.violated)) + laws), f"TLC: {sorted(set(mc.violated))} {laws} violated in the bounded model",
                          {"tlc_errors": mc.errors[:5], "counterexample": mc.cex[:4000]})
            return rep.finish()
        machinery_failure(PID, "TLC failed on MC_Types:\n" + mc.stdout[-3000:])
    types = [p for p in mc.printed if isinstance(p, dict) and "type" in p]
    cases = [p for p in mc.printed if isinstance(p, dict) and "acc" in p]
    absent = [p for p in mc.printed if isinstance(p, dict) and "nok" in p]
    vocab = [p for p in mc.printed if isinstance(p, dict) and "vocabulary" in p]
    if not cases or not vocab or not types or not absent or any(not c["aok"] for c in cases):
        machinery_failure(PID, f"TLC printed {len(types)} types, {len(cases)} accepted cases, {len(absent)} absent cases, {len(vocab)} vocabularies")
    tdefs = [p for p in mc.printed if isinstance(p, dict) and "typedefs" in p]
    if not tdefs:
        machinery_failure(PID, "TLC did not print the definitions of the restricted / registered types")
    ty.install_typedefs(tdefs[0]["typedefs"])
    ty.TEXTS = sorted({row[0] for row in vocab[0]["vocabulary"]} | ty.FIXED_WORDS)

    by_type = {}
    for c in cases + absent:
        by_type.setdefault((ty.canon(c["t"]), ty.canon(c["d"])), []).append(c)
    jobs = []
    for _, cs in sorted(by_type.items()):
        xs = sorted((c["x"] for c in cs), key=lambda x: ty.canon(ty.norm(x)) if x["k"] != "absent" else "")
        jobs.append((cs[0]["t"], cs[0]["d"], xs))
    ntypes, per_type = (80, 10) if tier == "quick" else (1800, 20)
    rjobs = ty.random_cases(rnd, ntypes, per_type)
    rjobs = [(t, d, xs + ([{"k": "absent", "v": 0}] if d["k"] != "none" else [])) for t, d, xs in rjobs]
    results = ty.run_jobs([(t, d, xs, tier == "quick") for t, d, xs in jobs + rjobs], work=_work)

    obs, meta = [], []
    stats = {"model_cases_alg_accepts": len(cases), "model_cases_key_not_given": len(absent), "model_types": len(types), "rejected_by_real_code": 0,
             "py_eq_false": 0, "unbuildable_types": 0, "random_types": len(rjobs), "by_channel": {}}
    for n, ((t, d, xs), r) in enumerate(zip(jobs + rjobs, results)):
        src = "model" if n < len(jobs) else "random"
        if "error" in r:
            stats["unbuildable_types"] += 1  # reported by C02
            continue
        for x, rows in zip(xs, r["out"]):
            for ch, o, how in rows:
                if o is None:
                    stats["rejected_by_real_code"] += src == "model"
                    continue
                if "error" in o:
                    if o["error"].startswith("result outside"):
                        rep.violation(f"unknown-result:{ty.shape(t, x)}", o["error"], {"t": t, "x": x})
                    else:
                        stats["harness_errors"] = stats.get("harness_errors", 0) + 1
                        stats.setdefault("harness_error_samples", []).append(o["error"])
                    continue
                notes = o.pop("notes")
                if notes.get("py_eq") is False:
                    stats["py_eq_false"] += 1
                o.update({"t": t, "d": d, "absent": how["absent"], "norm": how["norm"], "x": how["x"]})
                obs.append(o)
                meta.append({"x": x, "chan": ch, "notes": notes, "src": src})
                stats["by_channel"][ch] = stats["by_channel"].get(ch, 0) + 1
                if o["first"]["k"] in ("list", "tuple", "set", "dict", "enum", "path") or t["k"] == "union" or how["absent"]:
                    rep.note_nontrivial(ty.canon(t) + "|" + ty.canon(d) + "|" + ch + "|" + ty.canon(o["first"]))
    for r in ty.run_jobs(opaque_jobs(), work=_work_opaque):
        for ch, val, o in r["out"]:
            if o is None or "error" in o:
                rep.violation(f"class-spec:not-parsed:{r['label']}:{ch}", f"{r['label']}: the sub-class specs {val} are not accepted ({o})", {"value": val})
                continue
            notes = o.pop("notes")
            o.update({"kind": "opq", "t": {"k": "class", "v": [{"k": "name", "v": r["label"]}]}, "d": dict(NONE), "absent": False, "norm": True, "x": dict(NONE)})
            obs.append(o)
            meta.append({"x": dict(NONE), "chan": ch, "notes": notes, "src": "class-spec", "value": val})
            stats["by_channel"]["class-spec/" + ch] = stats["by_channel"].get("class-spec/" + ch, 0) + 1
            rep.note_nontrivial(r["label"] + "|" + ch + "|" + ty.canon(o["first"]))
    for r in ty.run_jobs(callable_jobs(tier), work=_work_callable):  # round 4: the same through a Callable type, next to the plain route
        for ch, val, o in r["out"]:
            if o is None or "error" in o:
                rep.violation(f"class-spec:not-parsed:{r['label']}:{ch}", f"{r['label']}: the class spec {val} is not accepted ({o})", {"value": val})
                continue
            notes = o.pop("notes")
            o.update({"kind": "opqc", "t": {"k": "class", "v": [{"k": "name", "v": r["label"]}]}, "d": dict(NONE), "absent": False, "norm": True, "x": dict(NONE)})
            obs.append(o)
            meta.append({"x": dict(NONE), "chan": ch, "notes": notes, "src": "class-spec", "value": val})
            stats["by_channel"]["callable-spec/" + ch] = stats["by_channel"].get("callable-spec/" + ch, 0) + 1
            rep.note_nontrivial(r["label"] + "|" + ch + "|" + ty.canon(o["first"]))
    if stats.get("harness_errors"):
        stats["harness_error_samples"] = stats["harness_error_samples"][:5]
    stats["observations_model"] = sum(1 for m in meta if m["src"] == "model")
    stats["observations_random"] = sum(1 for m in meta if m["src"] == "random")

    uniq, index = ty.dedupe(obs)
    stats["distinct_observations_validated_by_tlc"] = len(uniq)
    rejects = ty.validate_observations(rep, uniq, "c10", workers)
    by_obs = {}
    for kind, idx, clause in rejects:
        by_obs.setdefault(idx, []).append(clause)
    for n, o in enumerate(obs):
        cl = by_obs.get(index[n] + 1, [])
        if not cl:
            continue
        m = meta[n]
        t = o["t"]
        how = describe(o, m) if o["kind"] not in ("opq", "opqc") else f"add_argument('--k', type={o['t']['v'][0]['v']}) given {m['value']} ({m['chan']})"
        info = {"type": ty.type_str(t), "t": t, "d": o["d"], "x": m["x"], "channel": m["chan"], "python": how, "observation": o, "notes": m["notes"],
                "failed_clauses": cl, "source": m["src"]}
        where = f"{ty.type_str(t)}:{m['chan']}:{ty.canon(ty.norm(o['first']))[:60]}"
        ref = [c for c in cl if c.startswith("ref")]
        if not ref:
            rep.add_drift("real code is a fixed point as the property says, but not as the Alg transcription predicts", info)
            continue
        if o["kind"] in ("opq", "opqc"):
            for c in ref:
                if c.startswith("ref/serialised") or c.startswith("ref/route"):  # (opqc only)
                    fmt_ = "jser" if c.endswith("json") else "ser"
                    rep.violation(f"class-spec:{c[4:]}:{o['t']['v'][0]['v']}:{m['chan']}", f"{o['t']['v'][0]['v']} given {m['value']} ({m['chan']}): {c[4:]} fails -- the parsed value is {ty.canon(o['first'])[:300]}, "
                                  f"the dump holds {ty.canon(o[fmt_])[:300]}; through the plain class type Base the value is {ty.canon(o['pfirst'])[:300]} and the dump holds {ty.canon(o['p' + fmt_])[:300]}; {m['notes']}", info)
                    continue
                if c == "ref/dumpjson/other" and "Namespace is not JSON serializable" in str(m["notes"].get("json")):
                    # Namespace.as_dict converts the specs one container deep only (_namespace.py:221-224)
                    rep.violation(f"class-spec:json-dump-namespace-two-deep:{o['t']['v'][0]['v']}:{m['chan']}", f"{o['t']['v'][0]['v']} given {m['value']} ({m['chan']}): dump(cfg, format='json') raises "
                                  f"{m['notes']['json']} (the yaml dump of the same configuration works)", info)
                    continue
                rep.violation(f"class-spec:{c[4:]}:{o['t']['v'][0]['v']}:{m['chan']}", f"{o['t']['v'][0]['v']} given {m['value']} ({m['chan']}): {c[4:]} fails -- first {ty.canon(o['first'])[:300]}, "
                              f"second {ty.canon(o['second'])[:200]}, after dump on the same object {ty.canon(o['after'])[:300]}; {m['notes']}", info)
            continue
        for c in ref:
            if c == "ref/after-dump/as-alg/+dumpLeak":
                rep.violation(f"dump-changes-config:dump-leak/as-alg:{where}", f"{how}: after validate(cfg) and dump(cfg) the configuration itself holds {ty.canon(o['after'])[:300]} instead of "
                              f"{ty.gamma_repr(o['first'])}; named deviation dumpLeak of spec/Types.tla", info)
            elif c.startswith("ref/after-dump"):
                rep.violation(f"dump-changes-config/other:{where}", f"{how}: after validate(cfg) and dump(cfg) the configuration itself holds {ty.canon(o['after'])[:300]} instead of {ty.gamma_repr(o['first'])}", info)
            elif c == "ref/third/as-alg/+dumpLeak":
                rep.violation(f"dump-changes-config:dump-leak/as-alg:{where}", f"{how}: after validate(cfg) and dump(cfg) the configuration itself holds {ty.canon(o['after'])[:300]} instead of "
                              f"{ty.gamma_repr(o['first'])}, and parse_object of it gives " + (ty.canon(o["third"])[:300] if o["tok"] else "an error: " + str(m["notes"].get("third")))
                              + "; named deviation dumpLeak of spec/Types.tla", info)
            elif c.startswith("ref/third/as-alg/"):
                for d_ in sorted(x_ for x_ in c.split("/as-alg/")[1].split("+") if x_):
                    rep.violation(f"second-parse:{ty.DEV_KEYS.get(d_, DUMP_KEYS.get(d_, d_))}/as-alg:{where}", f"{how}: parse_object of the result {ty.gamma_repr(o['first'])} after a dump gives "
                                  + (ty.canon(o["third"]) if o["tok"] else "an error: " + str(m["notes"].get("third"))) + f"; named deviation {d_} of spec/Types.tla", info)
            elif c.startswith("ref/third"):
                rep.violation(f"parse-after-dump/other:{where}", f"{how}: parse_object of the result {ty.gamma_repr(o['first'])} after validate(cfg) and dump(cfg) on the same object gives "
                              + (ty.canon(o["third"]) if o["tok"] else "an error: " + str(m["notes"].get("third"))), info)
            elif c == "ref/validate":
                rep.violation(f"validate-rejects-result:{where}", f"{how}: validate() rejects the parse result {ty.gamma_repr(o['first'])}: {m['notes'].get('validate')}", info)
            elif c.startswith("ref/second/as-alg/"):
                for d_ in sorted(x_ for x_ in c.split("/as-alg/")[1].split("+") if x_):
                    rep.violation(f"second-parse:{ty.DEV_KEYS.get(d_, DUMP_KEYS.get(d_, d_))}/as-alg:{where}", f"{how}: parse_object of the result {ty.gamma_repr(o['first'])} gives "
                                  + (ty.canon(o["second"]) if o["sok"] else "an error: " + str(m["notes"].get("second"))) + f"; named deviation {d_} of spec/Types.tla", info)
            elif c.startswith("ref/second"):
                rep.violation(f"second-parse/other:{where}", f"{how}: parse_object of the result {ty.gamma_repr(o['first'])} gives "
                              + (ty.canon(o["second"]) if o["sok"] else "an error: " + str(m["notes"].get("second"))), info)
            elif "/as-alg/" in c:
                fmt = "yaml" if c.startswith("ref/dump/") else "json"
                for d_ in sorted(x_ for x_ in c.split("/as-alg/")[1].split("+") if x_):
                    rep.violation(f"dump:{DUMP_KEYS.get(d_, d_)}/as-alg:{fmt}:{where}", f"{how}: dump -> parse -> dump ({fmt}) of {ty.gamma_repr(o['first'])} is not stable "
                                  f"({m['notes'].get(fmt)}); named deviation {d_} of spec/Types.tla", info)
            else:
                fmt = "yaml" if c.startswith("ref/dump/") else "json"
                rep.violation(f"dump/other:{fmt}:{where}", f"{how}: dump -> parse -> dump ({fmt}) of {ty.gamma_repr(o['first'])} is not stable: {m['notes'].get(fmt)}", info)
    ty.finish_stats(rep)
    picks = [i for i, m in enumerate(meta) if m["chan"] in ("file/arg", "classargs/obj", "plain/arg")][:2] + list(range(0, len(obs), max(1, len(obs) // 3)))[:3]
    for i in picks:
        o, m = obs[i], meta[i]
        rep.sample({"how": describe(o, m), "first": o["first"], "second": o["second"], "validate_ok": o["vok"], "yaml_dumps_identical": o["dsame"],
                    "json_dumps_identical": o["jdsame"], "dumped_tree": o["ser"], "validated_by": "Trace_Types.CheckFix"})
    rep.traces = len(obs)
    rep.evaluations = len(obs)
    rep.extra.update(stats)
    rep.rule = ("cases = accepted parses: every (type hint, default, input) of the bounded grammar that the Alg layer accepts (printed by TLC; accepted dict inputs also through a config file given "
                "to an enable_path argument; the key not given with the default declared by add_argument, by add_class_arguments and by a class-typed option) and seeded random hints up to "
                "depth 4, through parse_object and parse_args; each result is validated, parsed again as an object, dumped / re-parsed / dumped in yaml and json. "
                "non-trivial & distinct = distinct (hint, default, channel, first result) whose result is a container, enum member or path, whose hint is a Union, or whose key was not given")
    rep.exhaustive = False
    rep.explanation = (f"MC_Types checked Idempotent and DumpStable on all {mc.distinct - len(types)} cases of its bounded grammar ({len(types)} (type term, default) pairs); "
                       f"the {len(cases)} cases that Alg accepts and the {len(absent)} key-not-given cases were replayed on the real code and {stats['observations_random']} further accepted parses came "
                       f"from {len(rjobs)} random hints; all {len(obs)} observations ({len(uniq)} distinct) were validated by TLC against Trace_Types.CheckFix. "
                       "The grammar is unbounded, so the run is not exhaustive for the property.")
    return rep.finish()


def describe(o, m) -> str:
    t, d = o["t"], o["d"]
    dflt = f", default={ty.gamma_repr(d)}" if d["k"] != "none" else ""
    ch = m["chan"]
    if o["absent"]:
        style, c = ch.split("/")
        decl = {"plain": f"add_argument('--k', type={ty.type_str(t)}{dflt})", "classargs": f"add_class_arguments(C, 'c') with C.__init__(self, x: {ty.type_str(t)} = {ty.gamma_repr(d)})",
                "dataclass": f"add_class_arguments(D, 'c') with the dataclass D(x: {ty.type_str(t)} = {ty.gamma_repr(d)})",
                "subclass": f"add_argument('--c', type=C) with C.__init__(self, x: {ty.type_str(t)} = {ty.gamma_repr(d)}), given only the class_path"}[style]
        return f"{decl}; {'parse_object' if c == 'obj' else 'parse_args'} without the key"
    if ch in ("dc/obj", "env", "cfg"):
        return (f"{ty.type_str(t)} with input {ty.gamma_repr(m['x'])} " + {"dc/obj": "as the field x of a dataclass given to add_class_arguments (parse_object)",
                "env": "from the environment variable APP_K (default_env=True)", "cfg": "from the config text 'k: <value>' (parse_string)"}[ch])
    if ch.startswith("file/"):
        return (f"add_argument('--k', type={ty.type_str(t)}{dflt}, enable_path=True); a config file holding {ty.gamma_repr(m['x'])} given by name through "
                f"{'parse_object' if ch.endswith('obj') else 'parse_args'}")
    return ty.python_repro(t, m["x"], ch, d)


def replay(path) -> int:
    """./check C10 --replay <file>: show the recorded case (its `python` field says how to run it by hand)"""
    rec = json.loads(open(path).read())
    case = rec.get("case", {})
    print(f"property={rec.get('property')} key={rec.get('key')}\n  what: {rec.get('what')}\n  how: {case.get('python')}")
    print("  recorded: " + json.dumps({k: case[k] for k in ("observation", "notes", "failed_clauses") if k in case})[:3000])
    return 0


if __name__ == "__main__":
    args = sys.argv[1:]
    if args and args[0] == "--replay":
        sys.exit(replay(args[1]))
    sys.exit(main(args))
