"""C07 — equivalent ways of declaring a nested group behave identically.

  MC      tlc MC_Groups: field lists of 1-2 fields over {int, str, List[int], Optional[int], Optional[List[int]]} with /
          without default x inputs of up to MaxItems items (set, '+' append, whole-group value; valid and ill-typed)
          through the command line, a config string, the environment and an object; invariants StylesAgree (every
          declaration style's Alg outcome = the one reference outcome, except the recorded deviation of the dotted style)
          and OptionalNeverRequired.
  REPLAY  (spec -> code) every emitted case is run on FOUR real parsers that declare the group as individual dotted
          arguments, as a dataclass-typed argument, with add_class_arguments and as an inner parser (ActionParser);
          values, accept/reject and the re-read dump of each must equal the outcome TLC computed, and the four dump
          texts must be identical.
  TRACE   (code -> spec) seeded random field lists (1-4 fields) and inputs (0-4 items) are run on the four parsers;
          TLC validates the recorded outcomes against Trace_Groups.
  X       (round 4, GroupsX.tla / MC_GroupsX / Trace_GroupsX, driver c07x.py) the same two directions for TYPED values
          (value and type fixed by the spec), defaults given for the whole group (default instance / dict / set_defaults,
          None stays None), required members (subclass-typed, two levels deep), fields named like Namespace methods
          whose type needs conversion given as one nested mapping (--g={...}, --g file.json), get_defaults, and
          dump + re-parse.
"""
from __future__ import annotations

import json
import os
import sys
import warnings

from ..lib import common, pipeline, tlc
from . import c07x
from ..lib.evidence import Report, machinery_failure

PID = "C07"
STYLES = ["dotted", "dataclass", "class", "inner"]
NONE, UNSET = 99999, 88888
DEV = ("individually declared dotted arguments have no whole-group option / variable: --g={...} is rejected and APP_G is ignored, while the dataclass, "
       "class and inner-parser styles accept them")


def hint(kind):
    from typing import List, Optional

    return {"int": int, "str": str, "list": List[int], "optint": Optional[int], "optlist": Optional[List[int]]}[kind]


def default_of(fd):
    if not fd["hasdef"]:
        return None
    return {"int": 7, "str": "s7", "list": [7], "optint": None, "optlist": None}[fd["kind"]]


def ordered(fields):
    """the same declaration order in every style: fields without default first (a dataclass / signature needs that)"""
    return sorted(fields, key=lambda fd: fd["hasdef"])


def build(style, fields, positional=False, inherited=False):
    """positional (class style only): the signature is added with as_positional=True, which declares the REQUIRED
    parameters as positionals `g.<name>` instead of options `--g.<name>`: the same group for every channel but argv"""
    import dataclasses

    from jsonargparse import ActionParser, ArgumentParser

    fields = ordered(fields)
    p = ArgumentParser(exit_on_error=False, env_prefix="APP")
    required = lambda fd: not fd["hasdef"] and fd["kind"] not in ("optint", "optlist")  # noqa: E731
    if style == "dotted":
        for fd in fields:
            kw = {"required": True} if required(fd) else {"default": default_of(fd)}
            p.add_argument("--g." + fd["name"], type=hint(fd["kind"]), **kw)
    elif style == "inner":
        inner = ArgumentParser(exit_on_error=False)
        for fd in fields:
            kw = {"required": True} if required(fd) else {"default": default_of(fd)}
            inner.add_argument("--" + fd["name"], type=hint(fd["kind"]), **kw)
        p.add_argument("--g", action=ActionParser(parser=inner))
    elif style == "dataclass":
        spec = []
        for fd in fields:
            if required(fd) or (not fd["hasdef"]):
                spec.append((fd["name"], hint(fd["kind"])))  # Optional[...] without default: no default in the dataclass either
            elif fd["kind"] == "list":
                spec.append((fd["name"], hint(fd["kind"]), dataclasses.field(default_factory=lambda: [7])))
            else:
                spec.append((fd["name"], hint(fd["kind"]), dataclasses.field(default=default_of(fd))))
        G = dataclasses.make_dataclass("G", spec)
        G.__module__ = __name__
        if inherited:   # a plain (undecorated) subclass of the dataclass: same fields, same generated __init__, still a dataclass
            G = type("Tuned", (G,), {"__module__": __name__})
        p.add_argument("--g", type=G)
    elif style == "class":
        params = []
        ns = {"List": __import__("typing").List, "Optional": __import__("typing").Optional}
        for fd in fields:
            h = {"int": "int", "str": "str", "list": "List[int]", "optint": "Optional[int]", "optlist": "Optional[List[int]]"}[fd["kind"]]
            if required(fd) or not fd["hasdef"]:
                params.append(f"{fd['name']}: {h}")
            else:
                d = default_of(fd)
                params.append(f"{fd['name']}: {h} = {repr(d)}")
        src = "class K:\n    def __init__(self, " + ", ".join(params) + "):\n        pass\n"
        exec(compile(src, "<generated class K>", "exec", dont_inherit=True), ns)  # no postponed annotations
        K = ns["K"]
        K.__module__ = __name__
        p.add_class_arguments(K, "g", as_positional=True) if positional else p.add_class_arguments(K, "g")
    return p


def conc(kind, v):
    if v == [NONE]:
        return None
    if kind == "int" or kind == "optint":
        return v[0]
    if kind == "str":
        return f"s{v[0]}"
    return list(v)


def absv(kind, x):
    if x is None:
        return [NONE]
    if kind in ("int", "optint") and type(x) is int:
        return [x]
    if kind == "str" and type(x) is str and x[:1] == "s" and x[1:].isdigit():
        return [int(x[1:])]
    if kind in ("list", "optlist") and type(x) in (list, tuple) and all(type(e) is int for e in x):
        return list(x)
    return [-1, -1, -1]


def render(chan, items, kinds, variant):
    """returns (call kind, payload)"""
    def val(it, f, v):
        return "xx" if it["bad"] else conc(kinds[f], v)

    if chan == "argv":
        argv = []
        for it in items:
            if it["op"] == "set":
                v = val(it, it["f"], it["v"])
                argv.append(f"--g.{it['f']}=" + (v if isinstance(v, str) else json.dumps(v)))
            elif it["op"] == "app":
                argv.append(f"--g.{it['f']}+={it['v'][0]}")
            else:
                argv.append("--g=" + json.dumps({f: conc(kinds[f], v) for f, v in it["gv"]}))
        return argv
    if chan == "env":
        env = {}
        for it in items:
            if it["op"] == "set":
                v = val(it, it["f"], it["v"])
                env["APP_G__" + it["f"].upper()] = v if isinstance(v, str) else json.dumps(v)
            else:
                env["APP_G"] = json.dumps({f: conc(kinds[f], v) for f, v in it["gv"]})
        return env
    # cfg / obj: one mapping
    root: dict = {}
    for it in items:
        if it["op"] == "graw":
            return {"g": {"null": None, "int": 5, "list": [1, 2], "float": 2.5, "str": "text"}[it["f"]]}
    for n, it in enumerate(items):
        pairs = [(it["f"] + ("+" if it["op"] == "app" else ""), val(it, it["f"], it["v"]) if it["op"] != "app" else list(it["v"]))] if it["op"] != "group" \
            else [(f, conc(kinds[f], v)) for f, v in it["gv"]]
        for name, v in pairs:
            if variant % 2 == 1 and not any(x["op"] == "group" for x in items):  # one spelling per document: all dotted or all nested
                root["g." + name] = v
            else:
                root.setdefault("g", {})[name] = v
    return root


def run_case(case):
    import yaml
    from jsonargparse import ArgumentError

    warnings.simplefilter("ignore")
    fields, chan, items, variant = case["fields"], case["chan"], case["items"], case["variant"]
    kinds = {fd["name"]: fd["kind"] for fd in fields}
    payload = render(chan, items, kinds, variant)
    outs = []
    saved = dict(os.environ)
    try:
        for k in list(os.environ):
            if k.startswith("APP_") or (k.startswith("JSONARGPARSE_") and k != common.GUARD):
                del os.environ[k]
        for style in STYLES:
            try:
                p = build(style, fields, positional=(style == "class" and chan != "argv" and variant % 3 == 2), inherited=(style == "dataclass" and variant % 4 == 1))
            except Exception as ex:
                outs.append({"style": style, "ok": False, "cfg": None, "escaped": "build:" + type(ex).__name__, "msg": str(ex)[:200]})
                continue
            try:
                if chan == "argv":
                    cfg = p.parse_args(list(payload))
                elif chan == "env":
                    cfg = p.parse_env(dict(payload))
                elif chan == "cfg":
                    cfg = p.parse_string(json.dumps(payload))
                else:
                    cfg = p.parse_object(json.loads(json.dumps(payload)))
                g = cfg.get("g")
                from jsonargparse import Namespace as _NS

                if g is not None and not isinstance(g, _NS):
                    got = {f: [-2] for f in kinds}  # the group key holds a non-mapping
                else:
                    got = {f: (absv(kinds[f], g.get(f)) if g is not None and f in g else [UNSET]) for f in kinds}
                dump = p.dump(cfg)
                back = (yaml.safe_load(dump) or {}).get("g") or {}
                if not isinstance(back, dict):
                    reread = {f: [-2] for f in kinds}
                else:
                    reread = {f: (absv(kinds[f], back.get(f)) if f in back else [NONE]) for f in kinds}
                outs.append({"style": style, "ok": True, "cfg": got, "dump": dump, "reread": reread})
            except ArgumentError as ex:
                outs.append({"style": style, "ok": False, "cfg": None, "msg": str(ex)[:200]})
            except SystemExit as ex:
                outs.append({"style": style, "ok": False, "cfg": None, "escaped": "SystemExit", "msg": f"exit {ex.code}"})
            except Exception as ex:
                outs.append({"style": style, "ok": False, "cfg": None, "escaped": type(ex).__name__, "msg": f"{type(ex).__name__}: {ex}"[:200]})
        return {"payload": repr(payload)[:400], "outs": outs}
    finally:
        os.environ.clear()
        os.environ.update(saved)


# ---------------------------------------------------------------- random
KINDS = ["int", "str", "list", "optint", "optlist"]


def random_case(rnd):
    nf = rnd.randint(1, 4)
    names = rnd.sample(["a", "b", "c", "d", "e", "f"], nf)
    fields = [{"name": n, "kind": rnd.choice(KINDS), "hasdef": rnd.random() < 0.6} for n in names]
    chan = rnd.choice(["argv", "argv", "cfg", "env", "obj"])
    if rnd.random() < 0.08:
        # the group key holds something that is not a mapping: unspecified, but the four styles must agree
        return {"fields": fields, "chan": rnd.choice(["cfg", "obj"]), "items": [{"op": "graw", "f": rnd.choice(["null", "int", "list", "float"]), "v": [], "gv": [], "bad": False}]}   # (a string there is a config path for the styles that have a group action)
    items = []
    used = set()
    for j in range(rnd.randint(0, 4)):
        fd = rnd.choice(fields)
        tag = 10 * (j + 1)
        islist = fd["kind"] in ("list", "optlist")
        v = [tag, tag + 1] if islist else [tag]
        r = rnd.random()
        if r < 0.2:
            sub = rnd.sample(fields, rnd.randint(1, len(fields)))
            if chan != "argv" and (used & {s["name"] for s in sub}):
                continue
            if chan == "env" and any(x["op"] == "group" for x in items):
                continue  # there is only one APP_G variable
            items.append({"op": "group", "f": sub[0]["name"], "v": [], "gv": [[s["name"], ([tag, tag + 1] if s["kind"] in ("list", "optlist") else [tag])] for s in sub], "bad": False})
            used |= {s["name"] for s in sub}
            continue
        if chan != "argv" and fd["name"] in used:
            continue
        used.add(fd["name"])
        if islist and r < 0.45 and chan in ("argv", "cfg"):
            items.append({"op": "app", "f": fd["name"], "v": [tag], "gv": [], "bad": False})
        elif fd["kind"] in ("optint", "optlist") and r < 0.55:
            items.append({"op": "set", "f": fd["name"], "v": [NONE], "gv": [], "bad": False})
        else:
            items.append({"op": "set", "f": fd["name"], "v": v, "gv": [], "bad": fd["kind"] != "str" and rnd.random() < 0.12})
    return {"fields": fields, "chan": chan, "items": items}


def main(argv):
    tier = "thorough" if (argv and argv[0] == "thorough") else "quick"
    rep = Report(PID, tier)
    rnd = common.rng(PID)
    rep.assumptions = [
        "GroupsX: group defaults are given already of the field's type (8.0 for a float field); 'None' group defaults only for Optional fields; the nested group h always contains the required h.x",
        "the four styles declare the fields in the same order (fields without default first); the class style uses the literal [7] as the signature default of a list field",
        "ill-typed values are only generated for non-str fields (every text is a valid str on the command line)",
        "on channels other than the command line the items of one input address disjoint fields (only argv orders its items)",
        "the dump of each style is re-read with yaml.safe_load; dump texts are compared byte for byte across the four styles",
    ]
    mc = tlc.run("MC_Groups", f"MC_Groups_{tier}", workers=16, timeout=3000, heap="12g")
    rep.add_tlc(f"MC_Groups_{tier}", mc)
    if mc.errors:
        if mc.violated:
            rep.violation("model:" + ",".join(mc.violated), f"TLC: {mc.violated} violated in MC_Groups", {"tlc_errors": mc.errors, "counterexample": mc.cex[:4000]})
            return rep.finish()
        machinery_failure(PID, "TLC failed on MC_Groups:\n" + mc.stdout[-3000:])
    emitted = [p for p in mc.printed if isinstance(p, dict) and "fields" in p]
    if not emitted:
        machinery_failure(PID, "MC_Groups emitted nothing")
    emitted.sort(key=lambda c: json.dumps([c["fields"], c["chan"], c["items"]], sort_keys=True))
    stride = 1 if tier == "quick" else 3
    cases = [{"fields": c["fields"], "chan": c["chan"], "items": c["items"], "variant": n, "ref": c["ref"], "dotted": c["dotted"], "dev": c["dev"]}
             for n, c in enumerate(emitted) if n % stride == 0]
    results = pipeline.run_many(run_case, cases, chunksize=16)
    nparse = 0
    for c, r in zip(cases, results):
        rep.traces += 1
        if c["items"]:
            rep.note_nontrivial(json.dumps([c["fields"], c["chan"], c["items"]], sort_keys=True))
        _judge(rep, c, r, c["ref"], c["dotted"], c["dev"])
        nparse += len(r["outs"])
        if rep.traces % 1499 == 1:
            rep.sample({"fields": c["fields"], "channel": c["chan"], "items": c["items"], "payload": r["payload"], "expected": c["ref"],
                        "observed": [{"style": o["style"], "ok": o["ok"], "cfg": o["cfg"]} for o in r["outs"]]})
    rep.extra["model_cases"] = len(cases)
    rep.extra["model_parses"] = nparse

    ntr = 1200 if tier == "quick" else 15000
    rcases = []
    for _ in range(ntr):
        rc = random_case(rnd)
        rc["variant"] = rnd.randint(0, 9)
        rcases.append(rc)
    rres = pipeline.run_many(run_case, rcases, chunksize=16)
    tmp = common.scratch("c07")
    try:
        f = tmp / "cases.json"
        f.write_text(json.dumps([{"fields": c["fields"], "chan": c["chan"], "items": c["items"],
                                  "outs": [{"style": o["style"], "ok": o["ok"], "cfg": [[k, v] for k, v in (o["cfg"] or {}).items()]} for o in r["outs"]]} for c, r in zip(rcases, rres)]))
        tr = tlc.run("Trace_Groups", "Trace_Groups", workers=16, env={"TRACE_FILE": str(f)}, timeout=3000, heap="12g")
        rep.add_tlc("Trace_Groups", tr)
        if tr.errors or tr.distinct != len(rcases):
            machinery_failure(PID, f"trace validation failed (distinct={tr.distinct}, expected {len(rcases)}):\n" + tr.stdout[-3000:])
        for p in tr.printed:
            if isinstance(p, list) and p and p[0] == "R":
                c, r = rcases[p[1] - 1], rres[p[1] - 1]
                o = r["outs"][p[2] - 1]
                case = {"fields": c["fields"], "channel": c["chan"], "items": c["items"], "payload": r["payload"], "style": o["style"],
                        "observed": {"ok": o["ok"], "cfg": o["cfg"], "msg": o.get("msg")}, "clause": p[3], "all": [{"style": x["style"], "ok": x["ok"], "cfg": x["cfg"]} for x in r["outs"]]}
                if p[3] in ("ref-dev-as-alg", "ref-dev"):
                    rep.violation("dotted:no-whole-group", DEV, case)
                elif p[3] == "styles-disagree":
                    rep.violation(f"styles-disagree:{c['chan']}:group-key-holds-{c['items'][0]['f']}", "the four declaration styles treat a non-mapping value at the group key differently",
                                  {"fields": c["fields"], "channel": c["chan"], "items": c["items"], "payload": r["payload"], "all": [{"style": x["style"], "ok": x["ok"], "cfg": x["cfg"], "msg": x.get("msg")} for x in r["outs"]]})
                elif p[3] == "ref":
                    rep.violation(f"random:{o['style']}:{c['chan']}:{'accepted' if o['ok'] else 'rejected'}:{_sig(c)}", f"style {o['style']} disagrees with the one reference outcome", case)
                else:
                    rep.add_drift("random: real = Ref but not Alg", case)
        for c, r in zip(rcases, rres):
            if not any(it["op"] == "graw" for it in c["items"]):
                _dumps(rep, c, r, "random:")
            for o in r["outs"]:
                if o.get("escaped"):
                    rep.violation(f"escaped:{o['escaped']}:{o['style']}", f"{o['escaped']} escaped in style {o['style']}: {o.get('msg')}", {"fields": c["fields"], "channel": c["chan"], "items": c["items"], "payload": r["payload"]})
        rep.traces += len(rcases)
        rep.extra["random_parses"] = sum(len(r["outs"]) for r in rres)
        for c in rcases:
            if c["items"]:
                rep.note_nontrivial(json.dumps([c["fields"], c["chan"], c["items"]], sort_keys=True))
        rep.sample({"random_fields": rcases[0]["fields"], "channel": rcases[0]["chan"], "items": rcases[0]["items"], "payload": rres[0]["payload"]})
    finally:
        common.rm(tmp)
    # round 4: typed values, group defaults, required members, method-named fields (GroupsX.tla; driver in c07x.py)
    xparses, xexpl = c07x.phase_x(rep, tier, common.rng(PID + ":x"), PID)
    rep.evaluations = nparse + rep.extra["random_parses"] + xparses
    rep.rule = ("cases = (field list, channel, items) triples, each run on the four declaration styles; non-trivial & distinct = distinct triples with at least one item")
    rep.exhaustive = tier == "quick"
    rep.explanation = (f"{len(cases)} cases of MC_Groups_{tier} ({'all' if stride == 1 else 'every 3rd'}) x 4 styles ({nparse} parses) compared with the one outcome TLC computed, dumps re-read and compared across styles; "
                       f"{len(rcases)} random cases validated by TLC against Trace_Groups; " + xexpl)
    return rep.finish()


def _sig(c):
    return "+".join(sorted({fd["kind"] + ("" if fd["hasdef"] else "!") for fd in c["fields"]})) + ":" + "+".join(it["op"] + ("!" if it["bad"] else "") for it in c["items"])


def _norm(o):
    return {"ok": o["ok"], "cfg": o["cfg"] if o["ok"] else []}


def _judge(rep, c, r, ref, dotted, dev):
    for o in r["outs"]:
        case = {"fields": c["fields"], "channel": c["chan"], "items": c["items"], "payload": r["payload"], "style": o["style"], "expected": ref,
                "observed": {"ok": o["ok"], "cfg": o["cfg"], "msg": o.get("msg")}, "all": [{"style": x["style"], "ok": x["ok"], "cfg": x["cfg"]} for x in r["outs"]]}
        if o.get("escaped"):
            rep.violation(f"escaped:{o['escaped']}:{o['style']}", f"{o['escaped']} escaped in style {o['style']}: {o.get('msg')}", case)
            continue
        seen = _norm(o)
        if seen == {"ok": ref["ok"], "cfg": ref["cfg"] if ref["ok"] else []}:
            if o["ok"] and o["reread"] != {k: (v if v != [UNSET] else [NONE]) for k, v in ref["cfg"].items()}:
                rep.violation(f"dump:{o['style']}:{_sig(c)}", f"the dump of style {o['style']} does not denote the parsed values: {o['reread']}", case)
            continue
        if o["style"] == "dotted" and dev:
            # the input class "a whole-group value given to the dotted style on argv / in the environment" IS the finding;
            # what exactly happens (rejected, variable ignored, or '--g' taken as an abbreviation of '--g.<field>') is Alg-level
            rep.violation("dotted:no-whole-group", DEV, case)
            if seen != {"ok": dotted["ok"], "cfg": dotted["cfg"] if dotted["ok"] else []}:
                rep.add_drift("dotted style, whole-group value: real differs from the Alg prediction (argparse abbreviation of --g)", case)
        else:
            rep.violation(f"{o['style']}:{c['chan']}:{'accepted' if o['ok'] else 'rejected'}:{_sig(c)}", f"style {o['style']} disagrees with the one reference outcome ({o.get('msg', '')[:100]})", case)
    _dumps(rep, c, r, "")


def _dumps(rep, c, r, prefix):
    texts = {o["style"]: o["dump"] for o in r["outs"] if o["ok"]}
    if len(set(texts.values())) > 1 and len({json.dumps(o["cfg"], sort_keys=True) for o in r["outs"] if o["ok"]}) == 1:
        groups = {}
        for sname, t in texts.items():
            groups.setdefault(t, []).append(sname)
        rep.violation(f"{prefix}dump-differs:" + "|".join("+".join(g) for g in sorted(groups.values())) + ":" + _sig(c),
                      "the styles parse to the same values but serialise them differently", {"fields": c["fields"], "channel": c["chan"], "items": c["items"], "dumps": texts})


if __name__ == "__main__":
    args = sys.argv[1:]
    if args and args[0] == "--replay":
        print(open(args[1]).read())
        sys.exit(0)
    sys.exit(main(args))
