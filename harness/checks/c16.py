"""C16 — classes are instantiated in an order compatible with every link.

  MC      tlc MC_Links      every digraph on <= 4 (quick) / <= 5 (thorough) nodes, four edge insertion orders each
                            (emitted as edge masks), self-loops on <= 3 / <= 4 nodes, plus every insertion order of
                            every graph on <= 3 nodes: the DirectedGraph transcription
                            (Alg) raises iff Cyclic and otherwise returns a topological permutation (Ref);
          tlc MC_LinksInst  every link graph (cyclic ones included) over flat / nested / deep templates of class groups
                            and class arguments, declaration orders, link orders and link styles: instantiation_order,
                            reorder, apply_instantiation_links and the instantiate_classes loop (Alg) against
                            BuiltBefore / ExactlyOnce / ReceivesSource / RejectedWhenAdded (Ref); the same run as a
                            state machine with invariants on every intermediate state.
  REPLAY  (spec -> code) every emitted graph is fed to the real DirectedGraph, every emitted shape is built as a real
          parser with generated classes that log their construction; the outcome TLC printed (already checked against
          Ref by TLC) is compared with what the real code did.
  TRACE   (code -> spec) whatever differs from the prediction, and seeded random graphs / shapes beyond TLC's bounds,
          are recorded and validated by TLC against Trace_Links (Ref clauses: verdict, Alg clauses: drift).
"""
from __future__ import annotations

import json
import multiprocessing as mp
import os
import sys
import threading
import types

from ..lib import common, tlc
from ..lib.evidence import Report, machinery_failure

common.check_repo_import()
import jsonargparse  # noqa: E402
from jsonargparse import ArgumentParser, Namespace  # noqa: E402
import jsonargparse._link_arguments as _la  # noqa: E402

PID = "C16"
WORKERS = int(os.environ.get("VERIF_TLC_WORKERS", "16"))
HEAP = os.environ.get("VERIF_TLC_HEAP", "8g")
NPROC = int(os.environ.get("VERIF_PROCS", "16"))
# the recursive operators of Links.tla (Reorder / Concat / SelectSeq over random shapes with 6 links and 6 components, the
# Warshall closure) can exceed the default thread stack of the JVM (a StackOverflowError is a machinery failure, seen
# with VERIF_SEED=2): every TLC run gets a 64 MB stack (tlc.py only removes JAVA_TOOL_OPTIONS)
JAVA_ENV = {"_JAVA_OPTIONS": "-Xss64m"}


# =====================================================================================  part A: DirectedGraph
def rev(s):
    return s[::-1]


def rot(s):
    h = len(s) // 2
    return s[h:] + s[:h]


def evenodd(s):
    return [s[i] for i in range(1, len(s), 2)] + [s[i] for i in range(0, len(s), 2)]


VARIANTS = [lambda s: list(s), rev, rot, evenodd]
LABELS = [lambda n: n, lambda n: f"k{n}", lambda n: f"g.c{n}.init_args", lambda n: (n, "t")]


def decode_edges(estr: str) -> list:
    return [(int(estr[i]), int(estr[i + 1])) for i in range(0, len(estr), 2)]


def real_graph(edges, label=lambda n: n):
    """the real DirectedGraph on a list of edges -> ("!", None) | ("o", [nodes])"""
    try:
        g = _la.DirectedGraph()
        for s, t in edges:
            g.add_edge(label(s), label(t))
        order = g.get_topological_order()
    except ValueError:
        return "!", None
    except BaseException as ex:  # e.g. RecursionError when a cycle is not detected: neither an order nor the ValueError
        return "E:" + type(ex).__name__, None
    return "o", list(order) if isinstance(order, (list, tuple)) else ["?not-a-list"]


def _graph_chunk(args):
    """replay a chunk of TLC's graph lines; returns (n_cases, n_nontrivial keys, mismatches)"""
    lines, base = args
    mism = []
    nontriv = 0
    n = 0
    for li, (estr, verdict, outs) in enumerate(lines):
        es0 = decode_edges(estr)
        for v, exp in enumerate(outs):
            es = VARIANTS[v](es0)
            lab = LABELS[(base + li + v) % len(LABELS)]
            inv = {lab(k): k for k in range(1, 10)}
            kind, order = real_graph(es, lab)
            n += 1
            try:
                got = kind if kind != "o" else "o" + "".join(str(inv[x]) for x in order)
            except Exception:
                got = "?"
            if got != exp:
                mism.append({"es": [[f"n{s}", f"n{t}"] for s, t in es], "raised": kind == "!", "crash": kind if kind.startswith("E:") else "",
                             "order": [f"n{inv.get(x, 0) if isinstance(x, (int, str, tuple)) else 0}" for x in (order or [])], "expected": exp, "cyclic": verdict == "cyclic",
                             "python": f"g=DirectedGraph(); [g.add_edge(s,t) for s,t in {es}]; g.get_topological_order()"})
        if len(es0) >= 2:
            nontriv += 1
    return n, nontriv, mism


def replay_graphs(rep, pool, glines, tag):
    """glines: [(edge string, 'cyclic'|'dag', [out per variant])]"""
    chunks = [(glines[i:i + 4000], i) for i in range(0, len(glines), 4000)]
    total = 0
    mism = []
    nontriv = 0
    for n, nt, mm in pool.imap_unordered(_graph_chunk, chunks):
        total += n
        nontriv += nt
        mism += mm
    rep.extra[f"graph_replay_{tag}"] = total
    return total, nontriv, mism


def random_graph_observations(rnd, count):
    obs = []
    for _ in range(count):
        n = rnd.randint(2, 9)
        names = rnd.sample(["a", "b", "c.d", "c.e", "model", "model.init_args.enc", "data", "x.y.z", "opt", "sched", "t", "u.v"], n)
        m = rnd.randint(0, min(14, n * (n - 1)))
        es = []
        # half of the graphs are drawn acyclic on purpose (edges along a random permutation)
        dag = rnd.random() < 0.55
        for _k in range(m):
            s, t = rnd.sample(range(n), 2)
            if dag and s > t:
                s, t = t, s
            if rnd.random() < 0.03:
                t = s
            es.append((names[s], names[t]))
        if rnd.random() < 0.3 and es:
            es.append(rnd.choice(es))  # a repeated edge
        kind, order = real_graph(es)
        obs.append({"es": [list(e) for e in es], "raised": kind == "!", "crash": kind if kind.startswith("E:") else "",
                    "order": [x if isinstance(x, str) else "?" for x in (order or [])]})
    return obs


# =====================================================================================  part B: real parsers from shapes
GEN = types.ModuleType("verif_links_gen")
sys.modules["verif_links_gen"] = GEN
GEN.LOG = []
GEN.SERIAL = [0]


class Token:
    def __init__(self, path, attr, serial):
        self.path, self.attr, self.serial = path, attr, serial


GEN.Token = Token
from typing import Any, List, Optional  # noqa: E402

GEN.Any = Any


def cname(path) -> str:
    return "C_" + "_".join(path)


def dotted(path) -> str:
    return ".".join(path)


def gen_class(path, params, children, zid, base=None):
    """a class for the object at `path`: link-target parameters (Any), class-typed parameters for nested objects,
    and z (its default identifies the spec of this object when an un-instantiated Namespace is passed around)."""
    cn = cname(path)
    sig = ["self"] + [f"{name}: {ccn}" for name, ccn in children] + [f"{p}: Any = None" for p in params] + [f"z: int = {zid}"]
    src = f"class {cn}{'(' + base + ')' if base else ''}:\n    def __init__({', '.join(sig)}):\n"
    for name, _ccn in children:  # (round 4) the object keeps what it was given: sources like "m.enc" / "m.enc.u" name attributes
        src += f"        self.{name} = {name}\n"
    src += "        SERIAL[0] += 1; self._serial = SERIAL[0]\n"
    src += f"        self.u = Token({tuple(path)!r}, 'u', self._serial); self.v = Token({tuple(path)!r}, 'v', self._serial)\n"
    src += f"        LOG.append(('new', {tuple(path)!r}, self, {{" + ", ".join(f"{p!r}: {p}" for p in params) + "}))\n"
    exec(src, GEN.__dict__)
    cls = GEN.__dict__[cn]
    cls.__module__ = "verif_links_gen"
    return cls


def comp_dests(shape):
    return [d["dest"] for d in shape["decl"]] + [d["dest"] + [c] for d in shape["decl"] if d["kind"] == "group" for c in d["cparams"]]


def source_key(shape, src) -> str:
    """the key link_arguments is given for a source: a component, an attribute of it, or (round 4) an object nested
    inside a class argument / an attribute of such an object: m.init_args.enc + u -> "m.enc.u"""
    obj = src["obj"]
    c = max((c for c in comp_dests(shape) if obj[: len(c)] == c), key=len)
    names = [x for x in obj[len(c):] if x != "init_args"]
    return dotted(c + names + ([src["attr"]] if src["attr"] else []))


def list_dests(shape):
    return [d["dest"] for d in shape["decl"] if d["kind"] == "list"]


def feeds(shape, link, path) -> bool:
    """the link writes into the constructor arguments of the object at `path` (every item of a List[Class] target)"""
    t = list(link["tobj"])
    return t == list(path) or (t in list_dests(shape) and list(path[:-1]) == t and len(path) == len(t) + 1)


def target_key(shape, link) -> str:
    tobj = link["tobj"]
    if tobj in shape["plains"]:
        return dotted(tobj)
    if any(d["dest"] == tobj and d["kind"] == "group" for d in shape["decl"]):
        return dotted(tobj + [link["param"]])
    return dotted(tobj + ["init_args", link["param"]])


def build_parser(shape, variant=0):
    """gamma: shape -> (parser, argv, add results).  Stops at the first link that is not accepted."""
    p, argv, add_links = build_base(shape, variant)
    return p, argv, add_links(0, len(shape["links"]))


def build_base(shape, variant=0):
    """gamma: shape -> (parser without links, argv, add_links(i, j) that calls link_arguments for links i..j-1)"""
    GEN.LOG.clear()
    GEN.SERIAL[0] = 0
    objs = sorted(shape["objs"], key=lambda p: (-len(p), p))  # inner classes first
    zid = {tuple(o): 100 + i for i, o in enumerate(sorted(shape["objs"]))}
    groups = {tuple(d["dest"]) for d in shape["decl"] if d["kind"] == "group"}
    lists = {tuple(d["dest"]): d for d in shape["decl"] if d["kind"] == "list"}
    opts = {tuple(d["dest"]) for d in shape["decl"] if d["kind"] == "opt"}
    params = {tuple(o): [] for o in objs}
    for o in list(lists) + list(opts):
        params[o] = []
    for l in shape["links"]:
        if l["tobj"] not in shape["plains"] and l["param"] not in params[tuple(l["tobj"])]:
            params[tuple(l["tobj"])].append(l["param"])
    for o, d in lists.items():  # the items of a list receive what is linked into the list
        for it in d["cparams"]:
            params[o + (it,)] = params[o]
    children = {tuple(o): [] for o in objs}  # object -> [(param name, child path)]
    for o in objs:
        o = tuple(o)
        for q in objs:
            q = tuple(q)
            if q == o or q[: len(o)] != o:
                continue
            rest = q[len(o):]
            if o in groups and len(rest) == 1:
                children[o].append((rest[0], q))
            elif o not in groups and len(rest) == 2 and rest[0] == "init_args":
                children[o].append((rest[1], q))
    classes = {}
    for o in objs:
        o = tuple(o)
        if o[:-1] in lists:
            continue
        classes[o] = gen_class(o, params[o], [(n, cname(q)) for n, q in children[o]], zid[o])
    for o, d in lists.items():  # List[C_l]: a base class and one subclass per item (so that the log names the item)
        classes[o] = gen_class(o, params[o], [], 99)
        for it in d["cparams"]:
            classes[o + (it,)] = gen_class(o + (it,), params[o], [], zid[o + (it,)], base=cname(o))
    for o in opts:
        classes[o] = gen_class(o, params[o], [], 98)

    def spec(o):
        return {"class_path": f"verif_links_gen.{cname(o)}", "init_args": {n: spec(q) for n, q in children[o]}}

    p = ArgumentParser(exit_on_error=False)
    argv = []
    for t in sorted(shape["plains"]):
        p.add_argument("--" + dotted(t), type=Any, default=None)
    for n, d in enumerate(shape["decl"]):
        o = tuple(d["dest"])
        if d["kind"] == "group":
            p.add_class_arguments(classes[o], dotted(o))
            for name, q in children[o]:
                argv.append(f"--{dotted(q)}={json.dumps(spec(q))}")
        elif d["kind"] == "list":
            p.add_argument("--" + dotted(o), type=List[classes[o]])
            argv.append(f"--{dotted(o)}={json.dumps([{'class_path': 'verif_links_gen.' + cname(o + (it,))} for it in d['cparams']])}")
        elif d["kind"] == "opt":  # an Optional class argument that stays None
            p.add_argument("--" + dotted(o), type=Optional[classes[o]], default=None)
            if (n + variant) % 2 == 0:
                argv.append(f"--{dotted(o)}=null")
        else:
            if (n + variant) % 2 == 0:
                p.add_subclass_arguments(classes[o], dotted(o))
            else:
                p.add_argument("--" + dotted(o), type=classes[o])
            argv.append(f"--{dotted(o)}={json.dumps(spec(o))}")
    def add_links(lo, hi):
        results = []
        for i in range(lo, hi):
            l = shape["links"][i]
            srckeys = tuple(source_key(shape, s) for s in l["srcs"])
            fn = None
            if l["fn"]:
                def fn(*args, _i=i + 1):
                    GEN.LOG.append(("fn", _i, args))
                    return ("fnres", _i, args)
            try:
                p.link_arguments(srckeys if len(srckeys) > 1 else srckeys[0], target_key(shape, l), fn, apply_on="instantiate")
                results.append("ok")
            except ValueError:
                results.append("rejected")
                break
            except Exception as ex:  # anything else is not a rejection
                results.append("error:" + type(ex).__name__)
                break
        return results

    return p, argv, add_links


def alpha_value(v, reg, zmap):
    if isinstance(v, Token):
        path, occ = reg.get(v.serial, (v.path, 0))
        return {"k": "attr", "o": list(v.path), "a": v.attr, "n": occ}
    if id(v) in reg:
        path, occ = reg[id(v)]
        return {"k": "obj", "o": list(path), "n": occ}
    if isinstance(v, tuple) and len(v) == 3 and v[0] == "fnres":
        return {"k": "fn", "i": v[1], "args": [alpha_value(x, reg, zmap) for x in v[2]]}
    if v is None:
        return {"k": "none"}
    if isinstance(v, Namespace):  # an un-instantiated spec: identify whose
        cp = v.get("class_path")
        if isinstance(cp, str) and cp.rsplit(".", 1)[-1] in zmap:
            return {"k": "stale", "o": zmap[cp.rsplit(".", 1)[-1]]}
        z = v.get("z")
        if z in zmap:
            return {"k": "stale", "o": zmap[z]}
        return {"k": "stale", "o": ["?"]}
    return {"k": "other", "r": repr(v)[:60]}


def zmap_of(shape):
    zmap = {}
    for i, o in enumerate(sorted(shape["objs"])):
        zmap[100 + i] = list(o)
        zmap[cname(o)] = list(o)
    return zmap


def instantiate_once(p, argv, shape, ob):
    """parse_args + instantiate_classes on the parser as it is now; fills failed / log / final of the observation"""
    zmap = zmap_of(shape)
    try:
        cfg = p.parse_args(argv)
        GEN.LOG.clear()
        init = p.instantiate_classes(cfg)
    except Exception as ex:
        ob["failed"] = True
        ob["exc"] = f"{type(ex).__name__}: {ex}"[:300]
        return ob
    reg = {}
    seen = {}
    for ev in GEN.LOG:
        if ev[0] == "new":
            seen[ev[1]] = seen.get(ev[1], 0) + 1
            reg[id(ev[2])] = (ev[1], seen[ev[1]])
            reg[ev[2]._serial] = (ev[1], seen[ev[1]])
    keep = [ev[2] for ev in GEN.LOG if ev[0] == "new"]  # keep the objects alive so that ids stay unique
    for ev in GEN.LOG:
        if ev[0] == "new":
            # (parameters that belong to links which are not added yet -- first call of a history -- are left out)
            mine = {l["param"] for l in shape["links"] if feeds(shape, l, list(ev[1]))}
            ob["log"].append({"ev": "new", "obj": list(ev[1]), "kw": sorted([k, alpha_value(v, reg, zmap)] for k, v in ev[3].items() if k in mine)})
        else:
            ob["log"].append({"ev": "fn", "link": ev[1], "args": [alpha_value(x, reg, zmap) for x in ev[2]]})
    for t in sorted(shape["plains"]):
        ob["final"].append([list(t), alpha_value(init.get(dotted(t)), reg, zmap)])
    # what instantiate_classes returned must be the constructed objects (part of ReceivesSource for whole-object links)
    for o in shape["objs"]:
        try:
            got = init[dotted(o)] if "init_args" not in o else None
        except Exception:
            got = None
        if got is not None and "init_args" not in o and id(got) not in reg:
            ob["log"].append({"ev": "new", "obj": ["?returned-not-constructed"] + list(o), "kw": []})
    del keep
    return ob


def run_shape(shape, variant=0):
    """the real code on one shape -> observation {add, ran, failed, log, final, exc}"""
    try:
        p, argv, results = build_parser(shape, variant)
    except Exception as ex:
        return {"add": ["error:build:" + type(ex).__name__], "ran": False, "failed": False, "log": [], "final": [], "exc": f"{type(ex).__name__}: {ex}"[:300]}
    ob = {"add": results, "ran": False, "failed": False, "log": [], "final": [], "exc": ""}
    if results and results[-1] != "ok":
        return ob
    ob["ran"] = True
    return instantiate_once(p, argv, shape, ob)


def run_history(shape, split, variant=0):
    """ONE real parser used twice: links 1..split, parse + instantiate_classes, the remaining links, parse +
    instantiate_classes again -> the two observations (each one as if its links were the whole shape)"""
    sh1 = dict(shape, links=shape["links"][:split])
    blank = lambda add: {"add": add, "ran": False, "failed": False, "log": [], "final": [], "exc": ""}
    try:
        p, argv, add_links = build_base(shape, variant)
        r1 = add_links(0, split)
    except Exception as ex:
        return sh1, blank(["error:build:" + type(ex).__name__]), blank(["error:build:" + type(ex).__name__])
    ob1, ob2 = blank(r1), blank(r1)
    if r1 and r1[-1] != "ok":
        return sh1, ob1, ob2
    ob1["ran"] = True
    instantiate_once(p, argv, sh1, ob1)
    r2 = add_links(split, len(shape["links"]))
    ob2["add"] = r1 + r2
    if r2 and r2[-1] != "ok":
        return sh1, ob1, ob2
    ob2["ran"] = True
    instantiate_once(p, argv, shape, ob2)
    return sh1, ob1, ob2


def canon_case(c):
    """TLC's emitted prediction in the same canonical form as an observation"""
    log = []
    for ev in c["log"]:
        if ev["ev"] == "new":
            log.append({"ev": "new", "obj": ev["obj"], "kw": sorted([k, v] for k, v in ev["kw"])})
        else:
            log.append({"ev": "fn", "link": ev["link"], "args": list(ev["args"])})
    return {"add": list(c["add"]), "failed": bool(c["failed"]), "log": log, "final": sorted([list(k), v] for k, v in c["final"])}


def _shape_chunk(args):
    cases, base = args
    out = []
    for ci, c in enumerate(cases):
        ob = run_shape(c["shape"], variant=base + ci)
        exp = canon_case(c)
        acc = c["accepted"]
        same = ob["add"] == exp["add"] and ob["ran"] == acc
        if same and acc and c["feasible"]:
            same = ob["failed"] == exp["failed"] and (exp["failed"] or (ob["log"] == exp["log"] and sorted(ob["final"]) == exp["final"]))
        out.append((base + ci, same, ob))
    return out


def _xshape_chunk(args):
    """(round 4) shapes of MC_LinksExt: as _shape_chunk; a shape with nested links has no predicted log (its run is
    validated against Ref by Trace_Links), only the outcome of the link_arguments calls is compared"""
    cases, base = args
    out = []
    for ci, c in enumerate(cases):
        ob = run_shape(c["shape"], variant=base + ci)
        exp = canon_case(c)
        acc = c["accepted"]
        same = ob["add"] == exp["add"] and ob["ran"] == acc
        if same and acc and c["feasible"] and not c["nested"]:
            same = ob["failed"] == exp["failed"] and (exp["failed"] or (ob["log"] == exp["log"] and sorted(ob["final"]) == exp["final"]))
        out.append((base + ci, same, ob))
    return out


def canon_log(log):
    out = []
    for ev in log:
        if ev["ev"] == "new":
            out.append({"ev": "new", "obj": ev["obj"], "kw": sorted([k, v] for k, v in ev["kw"])})
        else:
            out.append({"ev": "fn", "link": ev["link"], "args": list(ev["args"])})
    return out


def _hist_chunk(args):
    cases, base = args
    out = []
    for ci, c in enumerate(cases):
        sh1, ob1, ob2 = run_history(c["shape"], c["split"], variant=base + ci)
        n = len(c["shape"]["links"])
        same = (ob1["add"] == ["ok"] * c["split"] and ob1["ran"] and not ob1["failed"] and ob1["log"] == canon_log(c["log1"])
                and ob2["add"] == ["ok"] * n and ob2["ran"] and not ob2["failed"] and ob2["log"] == canon_log(c["log2"]))
        out.append((base + ci, same, sh1, ob1, ob2))
    return out


def with_sig(shape):
    """the shape as Trace_Links gets it: `sig` = its objects with siblings in signature order (gamma generates the
    class-typed parameters of an object in alphabetical order).  A shape emitted by TLC that already carries a sig must
    agree with gamma's order, otherwise the prediction is about another parser."""
    canon = sorted(shape["objs"])
    if "sig" in shape:
        sibs = [q for q in shape["sig"] if len(q) >= 2 and q[-2] == "init_args"]
        for a in sibs:
            for b in sibs:
                if a[:-1] == b[:-1] and a[-1] < b[-1] and shape["sig"].index(a) > shape["sig"].index(b):
                    machinery_failure(PID, f"sig of an emitted shape disagrees with the generated signature order: {shape['sig']}")
        return shape
    return dict(shape, sig=canon)


def shape_key(shape) -> str:
    return json.dumps(shape, sort_keys=True)


# -------------------------------------------------------------------- random shapes beyond the bounds of MC_LinksInst
def random_shape_ext(rnd):
    """(round 4) larger mixed shapes: 5..6 top-level components of every kind (class group, class argument, List[Class]
    argument, Optional argument that is None, group with class-typed parameter and nested class, class argument with
    nested classes), link sources that are nested objects, three nested target levels, nested links"""
    D = lambda dest, kind, cp=(): {"dest": dest, "kind": kind, "cparams": list(cp)}
    gs = lambda: rnd.choice(["group", "sub"])
    fam = rnd.choice(["flat", "flat", "mixed", "mixed", "deep3", "nest"])
    plains = []
    nested_links = False
    if fam == "flat":
        n = rnd.randint(5, 6)
        decl, objs = [], []
        for i in range(n):
            nm = "abcdef"[i]
            key = ["n", nm] if rnd.random() < 0.2 else [nm]
            k = rnd.random()
            if k < 0.2:
                items = ["i1", "i2", "i3"][: rnd.randint(1, 3)]
                decl.append(D(key, "list", items))
                objs += [key + [it] for it in items]
            elif k < 0.4:
                decl.append(D(key, "opt"))
            else:
                decl.append(D(key, gs()))
                objs.append(key)
        if rnd.random() < 0.3:
            plains = [["t1"], ["t2"]]
    elif fam == "mixed":
        decl = [D(["s"], gs()), D(["r"], "group", ["child"]), D(["m"], "sub"), D(["o"], gs()), D(["x"], rnd.choice(["group", "sub", "opt"]))]
        objs = [["s"], ["r"], ["m"], ["o"], ["r", "child"], ["r", "child", "init_args", "grand"], ["m", "init_args", "enc"], ["m", "init_args", "enc", "init_args", "inner"]]
        if decl[4]["kind"] != "opt":
            objs.append(["x"])
        if rnd.random() < 0.5:
            decl.append(D(["l"], "list", ["i1", "i2"]))
            objs += [["l", "i1"], ["l", "i2"]]
    elif fam == "deep3":
        decl = [D(["s1"], gs()), D(["s2"], gs()), D(["s3"], gs()), D(["r"], "group", ["child"]), D(["o"], gs())]
        objs = [["s1"], ["s2"], ["s3"], ["r"], ["o"], ["r", "child"], ["r", "child", "init_args", "grand"]]
    else:  # nested links inside the class argument m (no class group with class-typed parameters here)
        nested_links = True
        decl = [D(["s"], gs()), D(["m"], "sub"), D(["o"], gs()), D(["b"], gs()), D(["c"], rnd.choice(["group", "sub", "opt"]))]
        objs = [["s"], ["m"], ["o"], ["b"], ["m", "init_args", "dec"], ["m", "init_args", "enc"]]
        if decl[4]["kind"] != "opt":
            objs.append(["c"])
    rnd.shuffle(decl)
    shape0 = {"decl": decl}
    comps = comp_dests(shape0)
    lists = list_dests(shape0)
    items = [o for o in objs if o[:-1] in lists]
    owner = lambda o: max((c for c in comps if o[: len(c)] == c), key=len)
    nested_objs = [o for o in objs if o not in comps and o not in items]
    targets = [o for o in objs if o not in items] + lists + [d["dest"] for d in decl if d["kind"] == "opt"] + plains
    perm = comps[:]
    rnd.shuffle(perm)
    m = rnd.randint(2, 6)
    acyclic = rnd.random() < 0.8
    edges, used_plain = [], set()
    for _ in range(3 * m):
        if len(edges) >= m:
            break
        s = rnd.choice(nested_objs) if nested_objs and rnd.random() < 0.3 else rnd.choice([c for c in comps if c not in lists])
        t = rnd.choice(targets)
        if s == t or (s, t) in edges or (len(t) > len(s) and t[: len(s)] == s):
            continue
        if t in plains:
            if tuple(t) in used_plain:
                continue
            used_plain.add(tuple(t))
        else:
            is_nested = s not in comps and owner(s) == owner(t) and t not in comps or (s not in comps and t == owner(s))
            if is_nested and not (nested_links and t != owner(s)):
                continue  # nested links only in the "nest" family, and not into a parameter of the argument itself
            if acyclic and not is_nested and perm.index(owner(s)) >= perm.index(owner(t)):
                continue
        edges.append((s, t))
    links = []
    if rnd.random() < 0.2:
        by_t = {}
        for s, t in edges:
            by_t.setdefault(tuple(t), []).append(s)
        for t, ss in by_t.items():
            links.append({"srcs": [{"obj": s, "attr": rnd.choice(["", "u", "v"])} for s in ss], "tobj": list(t), "param": "pm", "fn": True})
    else:
        for s, t in edges:
            links.append({"srcs": [{"obj": s, "attr": rnd.choice(["", "u", "v"])}], "tobj": t, "param": "p" + "_".join(s), "fn": rnd.random() < 0.5})
    # a nested link needs an attribute of the nested source (a whole nested object is one name below m: also fine)
    return {"decl": decl, "objs": objs, "plains": plains, "links": links}


def random_shape(rnd):
    if rnd.random() < 0.4:
        return random_shape_ext(rnd)
    r = rnd.random()
    plains = []
    if r < 0.55:  # flat, 4..6 components, some under a shared (non-component) nested key
        n = rnd.randint(4, 6)
        keys = []
        for i in range(n):
            nm = "abcdef"[i]
            keys.append(["n", nm] if rnd.random() < 0.25 else [nm])
        decl = [{"dest": k, "kind": rnd.choice(["group", "sub"]), "cparams": []} for k in keys]
        objs = [list(k) for k in keys]
        if rnd.random() < 0.3:
            plains = [["t1"], ["t2"]]
    elif r < 0.8:  # deep 1 with an extra component
        decl = [{"dest": ["s"], "kind": rnd.choice(["group", "sub"]), "cparams": []}, {"dest": ["r"], "kind": "group", "cparams": ["child"]},
                {"dest": ["o"], "kind": rnd.choice(["group", "sub"]), "cparams": []}, {"dest": ["x"], "kind": rnd.choice(["group", "sub"]), "cparams": []}]
        objs = [["s"], ["r"], ["o"], ["x"], ["r", "child"], ["r", "child", "init_args", "grand"]]
    else:  # deep 2 with two nested classes
        decl = [{"dest": ["s"], "kind": "group", "cparams": []}, {"dest": ["m"], "kind": "sub", "cparams": []},
                {"dest": ["o"], "kind": rnd.choice(["group", "sub"]), "cparams": []}]
        objs = [["s"], ["m"], ["o"], ["m", "init_args", "enc"], ["m", "init_args", "enc", "init_args", "inner"]]
    rnd.shuffle(decl)
    comps = [d["dest"] for d in decl] + [d["dest"] + [c] for d in decl for c in d["cparams"]]
    cands = [(s, t) for s in comps for t in objs + plains if s != t and not (len(t) > len(s) and t[: len(s)] == s)]
    perm = comps[:]
    rnd.shuffle(perm)
    m = rnd.randint(1, 6)
    edges = []
    acyclic = rnd.random() < 0.75
    used_plain = set()
    for _ in range(m):
        s, t = rnd.choice(cands)
        if (s, t) in edges:
            continue
        if t in plains:
            if tuple(t) in used_plain:
                continue
            used_plain.add(tuple(t))
        if acyclic and t not in plains:
            # orient along the random permutation of the owning components
            own = max((c for c in comps if t[: len(c)] == c), key=len)
            if perm.index(s) > perm.index(own):
                continue
        edges.append((s, t))
    links = []
    merge = rnd.random() < 0.25
    if merge:
        by_t = {}
        for s, t in edges:
            by_t.setdefault(tuple(t), []).append(s)
        for t, ss in by_t.items():
            links.append({"srcs": [{"obj": s, "attr": rnd.choice(["", "u", "v"])} for s in ss], "tobj": list(t), "param": "pm", "fn": True})
    else:
        for s, t in edges:
            links.append({"srcs": [{"obj": s, "attr": rnd.choice(["", "u", "v"])}], "tobj": t, "param": "p" + "_".join(s), "fn": rnd.random() < 0.5})
    return {"decl": decl, "objs": objs, "plains": plains, "links": links}


def _random_chunk(args):
    """every third random shape is run as a history (one parser, two instantiate_classes calls, split by its index)"""
    shapes, base = args
    out = []
    for i, sh in enumerate(shapes):
        n = len(sh["links"])
        if (base + i) % 3 == 0 and n:
            split = (base + i) // 3 % (n + 1)
            sh1, ob1, ob2 = run_history(sh, split, variant=base + i)
            out.append((base + i, sh, (sh1, ob1, ob2, f"{split}of{n}")))
        else:
            out.append((base + i, sh, run_shape(sh, variant=base + i)))
    return out


RETRIED = []


def run_mc(module, cfg, workers=None, timeout=3000):
    """one model-checking run; a run that ended with an error which is not a violated invariant (resource trouble on
    a shared machine: out of memory, killed JVM, time-out) is repeated once; what happened is kept for the evidence"""
    mc = None
    for attempt in (1, 2):
        mc = tlc.run(module, cfg, workers=workers or WORKERS, timeout=timeout, heap=HEAP, env=JAVA_ENV)
        if mc.violated or not mc.errors:
            return mc
        RETRIED.append({"run": cfg, "attempt": attempt, "rc": mc.rc, "errors": mc.errors[:3], "tail": mc.stdout[-600:]})
    return mc


def run_trace(module, path, expect):
    """one trace-validation run; a run that TLC did not complete (resource trouble on a shared machine) is retried once"""
    tr = None
    for attempt in (1, 2, 3, 4):
        tr = tlc.run(module, module, workers=WORKERS, env=dict(JAVA_ENV, TRACE_FILE=str(path)), timeout=2400, heap=HEAP)
        if not tr.errors and tr.distinct == expect:
            return tr
    i = tr.stdout.find("Error")
    if os.environ.get("C16_DEBUG_DIR"):
        import shutil
        open(os.path.join(os.environ["C16_DEBUG_DIR"], "trace_fail.out"), "w").write(tr.stdout)
        shutil.copy(str(path), os.path.join(os.environ["C16_DEBUG_DIR"], "trace_fail.json"))
    machinery_failure(PID, f"trace validation failed four times (distinct={tr.distinct}, expected {expect}, errors={tr.errors[:5]}):\n"
                      + (tr.stdout[max(0, i - 200):i + 2500] if i >= 0 else tr.stdout[-3000:]))


# =====================================================================================  main
def parse_glines(printed):
    """G lines of MC_Links: the graph (edge string, or "m<mask>" over the pair table of the P line), c|d, 4 outcomes"""
    pairs = [p[1] for p in printed if isinstance(p, list) and len(p) == 2 and p[0] == "P"]
    table = [pairs[0][i:i + 2] for i in range(0, len(pairs[0]), 2)] if pairs else []
    out = []
    for p in printed:
        if isinstance(p, list) and len(p) == 7 and p[0] == "G":
            g = p[1]
            if g.startswith("m"):
                mask = int(g[1:])
                g = "".join(table[e] for e in range(len(table)) if mask >> e & 1)
            out.append((g, "cyclic" if p[2] == "c" else "dag", p[3:7]))
    out.sort()
    return out


def main(argv):
    tier = "thorough" if (argv and argv[0] == "thorough") else "quick"
    rep = Report(PID, tier)
    rnd = common.rng(PID)
    rep.assumptions = [
        "graph nodes are compared by equality only (the real DirectedGraph is run with int, str, dotted-str and tuple labels)",
        "the generated classes log their constructor calls; objects and attribute tokens are identified by identity; a compute function returns a tagged tuple of its arguments (injective)",
        "components are class groups (add_class_arguments) and class-typed arguments (add_subclass_arguments / add_argument(type=Class), alternating); per-parameter type-hint actions that construct nothing are not modelled",
        "links whose source object contains the target (a constructor argument of the source) and other link sets that are only cyclic through constructor arguments are outside the property as stated: only acceptance/rejection of the link is compared there",
        "links between a source and a target inside the same class argument (nested links, applied by the type hint): acceptance / rejection is predicted by the transcription, the run is validated against the Ref clauses only (no transcription of the inner parser); sub-commands are not covered",
        "every generated object has the attributes u, v and one attribute per class-typed parameter holding the object it was given; a List[Class] argument gets one generated subclass per item; an Optional[Class] argument that is None is declared with default None (and given as null every other case)",
        "the class of the exception of a rejected link is ValueError (named by the property); any other failure is compared as 'raises' only",
    ]
    pool = mp.get_context("fork").Pool(NPROC)
    tmp = common.scratch("c16")
    clock = common.Timer()
    timing = rep.extra.setdefault("timing_s", {})
    try:
        # (round 4) the instance of the extended universe runs while part A is checked and replayed
        xbox = {}
        xth = threading.Thread(target=lambda: xbox.setdefault("r", run_mc("MC_LinksExt", f"MC_LinksExt_{tier}", workers=max(2, WORKERS // 2))))
        xth.start()
        # ------------------------------------------------------------------ part A: MC + replay
        graph_cfgs = ["MC_Links_quick", "MC_Links_loops", "MC_Links_seq"] if tier == "quick" else ["MC_Links_loops4", "MC_Links_seq", "MC_Links_thorough"]
        n_graph_cases = 0
        graph_trace = []
        for cfgname in graph_cfgs:
            mc = run_mc("MC_Links", cfgname, timeout=2400)
            rep.add_tlc(cfgname, mc)
            if mc.errors:
                if mc.violated:
                    rep.violation("model:graph:" + ",".join(mc.violated), f"TLC: {mc.violated} violated in {cfgname}: the DirectedGraph algorithm does not refine Ref",
                                  {"tlc_errors": mc.errors, "counterexample": mc.cex[:4000]})
                    continue
                machinery_failure(PID, f"TLC failed on {cfgname}:\n" + mc.stdout[-3000:])
            glines = parse_glines(mc.printed)
            seeds = [p for p in mc.printed if isinstance(p, list) and p and p[0] == "SEEDS"]
            if not seeds or len(glines) != mc.distinct - seeds[0][1]:
                machinery_failure(PID, f"{cfgname}: {len(glines)} emitted graph cases for {mc.distinct} distinct states (seeds {seeds})")
            vt = [p for p in mc.printed if isinstance(p, list) and p and p[0] == "V"]
            probe = [(1, 2), (2, 3), (3, 1), (1, 3), (2, 1)]
            mine = ["".join(f"{s}{t}" for s, t in V(probe)) for V in VARIANTS]
            if not vt or vt[0][1:5] != mine:
                machinery_failure(PID, f"{cfgname}: insertion-order variants of the spec {vt[:1]} differ from the harness {mine}")
            mc.printed, mc.stdout = [], ""  # a million decoded lines: free them before the replay
            total, nontriv, mism = replay_graphs(rep, pool, glines, cfgname)
            n_graph_cases += total
            rep.extra.setdefault("graph_cases_with_2plus_edges", 0)
            rep.extra["graph_cases_with_2plus_edges"] += nontriv
            for g, _v, outs in glines:
                if len(g) >= 4:
                    rep.note_nontrivial("G" + g if cfgname != "MC_Links_seq" else "S" + g)
            if glines:
                g = glines[len(glines) // 2]
                rep.sample({"graph_edges": g[0], "ref": g[1], "alg_outcomes_per_insertion_order": g[2],
                            "python": "DirectedGraph().add_edge(..) per edge; get_topological_order()", "observed": "identical" if not mism else "see violations/drift"})
            for m in mism:
                graph_trace.append(m)
        timing["graphs_mc_and_replay"] = clock.s()
        # ------------------------------------------------------------------ part A: random graphs beyond the bound
        robs = random_graph_observations(rnd, 400 if tier == "quick" else 6000)
        for o in robs:
            rep.note_nontrivial("R" + json.dumps(o["es"]))
        graph_obs = [{"es": m["es"], "raised": m["raised"], "order": m["order"], "crash": m["crash"]} for m in graph_trace] + robs

        # ------------------------------------------------------------------ part B: MC (case mode + machine mode)
        inst_cfg = f"MC_LinksInst_{tier}"
        mc = run_mc("MC_LinksInst", inst_cfg)
        rep.add_tlc(inst_cfg, mc)
        cases = []
        if mc.errors:
            if mc.violated:
                rep.violation("model:inst:" + ",".join(mc.violated), f"TLC: {mc.violated} violated in {inst_cfg}: the instantiate_classes transcription does not refine Ref outside the recorded deviation",
                              {"tlc_errors": mc.errors, "counterexample": mc.cex[:4000]})
            else:
                machinery_failure(PID, f"TLC failed on {inst_cfg}:\n" + mc.stdout[-3000:])
        else:
            cases = [p for p in mc.printed if isinstance(p, dict) and "shape" in p]
            seeds = [p for p in mc.printed if isinstance(p, list) and p and p[0] == "SEEDS"]
            if not seeds or len(cases) != mc.distinct - seeds[0][1]:
                machinery_failure(PID, f"{inst_cfg}: {len(cases)} emitted shapes for {mc.distinct} distinct states (seeds {seeds})")
            cases.sort(key=lambda c: shape_key(c["shape"]))
            mc.printed, mc.stdout = [], ""
        # the machine-mode instance runs while the shapes are replayed
        box = {}
        th = threading.Thread(target=lambda: box.setdefault("r", run_mc("MC_LinksInst", f"MC_LinksInst_machine_{tier}", workers=max(2, WORKERS // 2))))
        th.start()

        timing["inst_mc"] = clock.s()
        # ------------------------------------------------------------------ part B: replay of every emitted shape
        chunks = [(cases[i:i + 200], i) for i in range(0, len(cases), 200)]
        inst_obs = []  # (shape, observation, origin)
        n_same = 0
        n_dev = 0
        for res in pool.imap_unordered(_shape_chunk, chunks):
            for idx, same, ob in res:
                c = cases[idx]
                if c["dev"]:
                    n_dev += 1
                if same and not c["dev"]:
                    n_same += 1
                else:
                    inst_obs.append((c["shape"], ob, "model"))
        for c in cases:
            if len(c["shape"]["links"]) >= 2 and c["accepted"]:
                rep.note_nontrivial(shape_key(c["shape"]))
        rep.extra["inst_shapes_emitted"] = len(cases)
        rep.extra["inst_shapes_identical_to_prediction"] = n_same
        rep.extra["inst_shapes_in_recorded_deviation"] = n_dev
        rep.extra["inst_shapes_rejected"] = sum(1 for c in cases if not c["accepted"])
        rep.extra["inst_shapes_infeasible"] = sum(1 for c in cases if not c["feasible"])
        rep.extra["inst_shapes_sent_to_trace_validation"] = len(inst_obs)
        for c in (cases[:: max(1, len(cases) // 3)])[:3]:
            rep.sample({"shape": c["shape"], "spec_add": c["add"], "spec_plan": c["plan"], "spec_log": c["log"],
                        "python": "build_parser(shape) -> link_arguments(.., apply_on='instantiate') per link; parse_args; instantiate_classes; constructor log"})

        timing["inst_replay"] = clock.s()
        th.join()
        mcm = box.get("r")
        if mcm is None:
            machinery_failure(PID, "the machine-mode TLC run did not finish")
        rep.add_tlc(f"MC_LinksInst_machine_{tier}", mcm)
        if mcm.errors:
            if mcm.violated:
                rep.violation("model:machine:" + ",".join(mcm.violated), f"TLC: {mcm.violated} violated by the instantiate_classes state machine",
                              {"tlc_errors": mcm.errors, "counterexample": mcm.cex[:4000]})
            else:
                machinery_failure(PID, "TLC failed on the machine instance:\n" + mcm.stdout[-3000:])
        timing["machine_mc_joined"] = clock.s()
        # ------------------------------------------------------------------ part B: histories (one parser, two calls)
        hcfg = f"MC_LinksInst_hist_{tier}"
        mch = run_mc("MC_LinksInst", hcfg)
        rep.add_tlc(hcfg, mch)
        hcases = []
        if mch.errors:
            if mch.violated:
                rep.violation("model:history:" + ",".join(mch.violated), f"TLC: {mch.violated} violated in {hcfg}", {"tlc_errors": mch.errors, "counterexample": mch.cex[:4000]})
            else:
                machinery_failure(PID, f"TLC failed on {hcfg}:\n" + mch.stdout[-3000:])
        else:
            hcases = [p for p in mch.printed if isinstance(p, dict) and p.get("hist")]
            hseeds = [p for p in mch.printed if isinstance(p, list) and p and p[0] == "HSEEDS"]
            if not hseeds or len(hcases) != mch.distinct - hseeds[0][1]:
                machinery_failure(PID, f"{hcfg}: {len(hcases)} emitted histories for {mch.distinct} distinct states (seeds {hseeds})")
            hcases.sort(key=lambda c: (shape_key(c["shape"]), c["split"]))
        n_hsame = 0
        chunks = [(hcases[i:i + 100], i) for i in range(0, len(hcases), 100)]
        for res in pool.imap_unordered(_hist_chunk, chunks):
            for idx, same, sh1, ob1, ob2 in res:
                c = hcases[idx]
                if same:
                    n_hsame += 1
                else:
                    tag = f"{c['split']}of{len(c['shape']['links'])}"
                    inst_obs.append((sh1, ob1, "history-first:" + tag))
                    inst_obs.append((c["shape"], ob2, "history-second:" + tag))
        for c in hcases:
            if c["reorders"]:
                rep.note_nontrivial("H" + shape_key(c["shape"]) + str(c["split"]))
        rep.extra["histories_emitted"] = len(hcases)
        rep.extra["histories_identical_to_prediction"] = n_hsame
        rep.extra["histories_whose_second_call_must_reorder"] = sum(1 for c in hcases if c["reorders"])
        if hcases:
            c = next((x for x in hcases if x["reorders"]), hcases[0])
            rep.sample({"history": True, "shape": c["shape"], "links_before_first_instantiate": c["split"], "spec_log_first": c["log1"], "spec_log_second": c["log2"],
                        "python": "build_base(shape); add_links(0, split); parse_args; instantiate_classes; add_links(split, n); parse_args; instantiate_classes"})
        timing["histories"] = clock.s()

        # ------------------------------------------------------------------ part B: the extended universe (round 4)
        xth.join()
        mcx = xbox.get("r")
        xcfg = f"MC_LinksExt_{tier}"
        if mcx is None:
            machinery_failure(PID, "the TLC run of MC_LinksExt did not finish")
        rep.add_tlc(xcfg, mcx)
        xcases = []
        if mcx.errors:
            if mcx.violated:
                rep.violation("model:ext:" + ",".join(mcx.violated), f"TLC: {mcx.violated} violated in {xcfg}: the transcription does not refine Ref outside the recorded deviations "
                              "(List / Optional components, nested sources, nested links, three nested target levels)", {"tlc_errors": mcx.errors, "counterexample": mcx.cex[:4000]})
            else:
                machinery_failure(PID, f"TLC failed on {xcfg}:\n" + mcx.stdout[-3000:])
        else:
            xcases = [p for p in mcx.printed if isinstance(p, dict) and "shape" in p and "leaf" in p]
            xseeds = [p for p in mcx.printed if isinstance(p, list) and p and p[0] == "XSEEDS"]
            if not xseeds or len(xcases) != mcx.distinct - xseeds[0][1]:
                machinery_failure(PID, f"{xcfg}: {len(xcases)} emitted shapes for {mcx.distinct} distinct states (seeds {xseeds})")
            xcases.sort(key=lambda c: shape_key(c["shape"]))
            mcx.printed, mcx.stdout = [], ""
        n_xsame = 0
        chunks = [(xcases[i:i + 100], i) for i in range(0, len(xcases), 100)]
        for res in pool.imap_unordered(_xshape_chunk, chunks):
            for idx, same, ob in res:
                c = xcases[idx]
                if same and not (c["dev"] or c["leaf"] or c["nested"] or c["owner"] or c["cyc"]):
                    n_xsame += 1
                else:
                    inst_obs.append((c["shape"], ob, "ext"))
        for c in xcases:
            if len(c["shape"]["links"]) >= 2 and c["accepted"]:
                rep.note_nontrivial(shape_key(c["shape"]))
        kinds_of = lambda c: {d["kind"] for d in c["shape"]["decl"]}
        rep.extra["ext_shapes"] = {
            "emitted": len(xcases), "identical_to_prediction": n_xsame,
            "with_list_target": sum(1 for c in xcases if any(l["tobj"] in list_dests(c["shape"]) for l in c["shape"]["links"])),
            "with_none_component_linked": sum(1 for c in xcases if "opt" in kinds_of(c)),
            "with_nested_source": sum(1 for c in xcases if any(s["obj"] not in comp_dests(c["shape"]) for l in c["shape"]["links"] for s in l["srcs"])),
            "three_target_levels": sum(1 for c in xcases if any(d["dest"] == ["s3"] for d in c["shape"]["decl"])),
            "three_target_levels_misordered": sum(1 for c in xcases if any(d["dest"] == ["s3"] for d in c["shape"]["decl"]) and c["dev"]),
            "with_nested_links_accepted": sum(1 for c in xcases if c["nested"] and c["accepted"]),
            "deviation_leaf": sum(1 for c in xcases if c["leaf"] and c["accepted"] and c["feasible"]),
            "deviation_owner_targeted": sum(1 for c in xcases if c["owner"]),
            "deviation_nested_cycle": sum(1 for c in xcases if c["cyc"]),
            "rejected": sum(1 for c in xcases if not c["accepted"]),
        }
        for c in [x for x in xcases if any(d["kind"] == "list" for d in x["shape"]["decl"]) and len(x["shape"]["links"]) >= 2 and x["accepted"]][:1]:
            rep.sample({"shape": c["shape"], "spec_add": c["add"], "spec_plan": c["plan"], "spec_log": c["log"],
                        "python": "build_parser(shape): List[Class] / Optional[Class]=None arguments, link_arguments(.., apply_on='instantiate'); parse_args; instantiate_classes"})
        timing["ext"] = clock.s()

        # ------------------------------------------------------------------ part B: random shapes beyond the bounds
        nrand = 400 if tier == "quick" else 5000
        shapes = [random_shape(rnd) for _ in range(nrand)]
        chunks = [(shapes[i:i + 100], i) for i in range(0, len(shapes), 100)]
        rand_res = []
        for res in pool.imap_unordered(_random_chunk, chunks):
            rand_res += res
        rand_res.sort(key=lambda x: x[0])
        for _i, sh, ob in rand_res:
            if isinstance(ob, tuple):  # a random history: the two calls
                sh1, ob1, ob2, tag = ob
                inst_obs.append((sh1, ob1, "history-first:random:" + tag))
                inst_obs.append((sh, ob2, "history-second:random:" + tag))
            else:
                inst_obs.append((sh, ob, "random"))
            if len(sh["links"]) >= 2:
                rep.note_nontrivial("R" + shape_key(sh))
        rep.extra["random_shapes"] = nrand
        rep.extra["random_graphs"] = len(robs)

        timing["random_shapes"] = clock.s()
        # ------------------------------------------------------------------ TRACE: TLC validates what was recorded
        rejects = []
        CH = 4000
        nchunks = max(1, (len(inst_obs) + CH - 1) // CH)
        for c in range(nchunks):
            part = inst_obs[c * CH:(c + 1) * CH]
            gpart = graph_obs if c == 0 else []
            f = tmp / f"trace{c}.json"
            f.write_text(json.dumps({"graphs": [{"es": g["es"], "raised": g["raised"], "order": g["order"]} for g in gpart], "insts": [{"shape": with_sig(sh), "add": ob["add"], "ran": ob["ran"], "failed": ob["failed"], "log": ob["log"], "final": ob["final"]}
                                                                for sh, ob, _o in part]}))
            tr = run_trace("Trace_Links", f, len(part) + len(gpart))
            rep.add_tlc(f"Trace_Links[{c}]", tr)
            for p in tr.printed:
                if isinstance(p, list) and p and p[0] == "R":
                    rejects.append((p[1], p[2] + (c * CH if p[1] == "inst" else 0), p[3]))
            f.unlink()

        timing["trace_validation"] = clock.s()
        rep.traces = n_graph_cases + len(cases) + len(xcases) + 2 * len(hcases) + len(graph_obs) + nrand
        rep.evaluations = rep.traces
        rep.rule = ("cases = (edge sequence) for the graph part, (parser shape) for the instantiation part; non-trivial & distinct = distinct graphs "
                    "with >= 2 edges, distinct accepted shapes with >= 2 links, distinct random graphs / shapes")
        rep.exhaustive = True
        rep.explanation = ("part (a): MC_Links enumerated every digraph on the nodes of its instance (every subset of the ordered pairs, self-loops included "
                           "in the 4-node instance; all 2^20 loop-free graphs on 5 nodes in thorough) with 4 insertion orders each and every insertion order of every graph on 3 nodes, "
                           f"and all {n_graph_cases} (graph, order) cases were replayed on the real DirectedGraph; part (b): MC_LinksInst enumerated every link graph over its templates "
                           f"({len(cases)} shapes), all replayed through real parsers, and every split of every acyclic link sequence over three components into two batches "
                           f"around an instantiate_classes call ({len(hcases)} histories on one parser, property checked after each call); {len(graph_obs)} graph and {len(inst_obs)} parser observations (differences, the recorded deviation, seeded random cases "
                           "beyond the bounds) were validated by TLC against Trace_Links. Exhaustive within these bounds only.")

        # ------------------------------------------------------------------ classification
        by = {}
        for kind, idx, clause in rejects:
            by.setdefault((kind, idx), []).append(clause)
        for (kind, idx), clauses in sorted(by.items()):
            ref = [c for c in clauses if c.startswith("ref")]
            if kind == "graph":
                o = graph_obs[idx - 1]
                case = {"observation": o, "failed_clauses": clauses,
                        "python": f"g=DirectedGraph(); [g.add_edge(s,t) for s,t in {o['es']}]; g.get_topological_order()"}
                if ref:
                    rep.violation("graph:" + ref[0][4:] + (":" + o["crash"] if o.get("crash") else "") + f":{len(o['es'])}edges", f"DirectedGraph: {ref[0]} on edges {o['es']}", case)
                else:
                    rep.add_drift("DirectedGraph returns a valid but different topological order than the transcription", case)
            else:
                sh, ob, origin = inst_obs[idx - 1]
                case = {"shape": sh, "observed": ob, "origin": origin, "failed_clauses": clauses,
                        "python": "harness.checks.c16.run_shape(shape)  # builds the parser with generated classes, parse_args, instantiate_classes"}
                if not ref:
                    rep.add_drift("instantiate_classes satisfies the property but differs from the transcription (order of independent steps)", case)
                    continue
                cl = ref[0]
                if cl in ("ref-dev-target-raises", "ref-dev-target-confined"):
                    rep.violation("nested-target-misordered:" + cl[15:], "a link into an object nested inside another component is applied before its source exists", case)
                elif cl == "ref-dev-source-raises":
                    rep.violation("nested-source-unreachable:raises", "a class-typed parameter of a class group used as link source is looked up after the group was instantiated", case)
                elif cl == "ref-dev-leaf":
                    rep.violation("nested-attr-source:leaf-of-owner", "a link source two or more names below its action (m.enc.u) delivers the attribute of the enclosing argument with the last name (m.u), or nothing", case)
                elif cl == "ref-dev-owner-targeted":
                    rep.violation("nested-link-owner-targeted:rejected", "an acyclic link set with a link inside one class argument is rejected as cyclic because the argument is itself a link target", case)
                elif cl == "ref-dev-nested-cycle":
                    rep.violation(f"nested-cycle-accepted:{len(ob['add'])}links", "a cycle of links through an object nested inside a component is not rejected when the link is added", case)
                elif cl == "ref-dev-other":
                    rep.violation("nested-other:" + ("raises" if ob["failed"] else "log"), "nested link source/target: neither the property nor a recorded deviation", case)
                elif cl == "ref-add":
                    rep.violation("add:" + "/".join(ob["add"][-1:]) + f":{len(sh['links'])}links", "link_arguments accepted / rejected a link against the cycle rule", case)
                elif origin.startswith("history"):
                    rep.violation(f"{origin.split(':')[0]}:{cl[4:]}:{'deep' if any('init_args' in o for o in sh['objs']) else 'flat'}",
                                  f"instantiate_classes on a parser that is used twice ({origin}): {cl}", case)
                else:
                    rep.violation(f"inst:{cl[4:]}:{'deep' if any('init_args' in o for o in sh['objs']) else 'flat'}", f"instantiate_classes: {cl}", case)
        if RETRIED:
            rep.extra["tlc_runs_repeated"] = RETRIED
        return rep.finish()
    finally:
        pool.terminate()
        common.rm(tmp)


if __name__ == "__main__":
    args = sys.argv[1:]
    if args and args[0] == "--replay":
        data = json.load(open(args[1]))
        case = data.get("case", {})
        if "shape" in case:
            print(json.dumps({"shape": case["shape"], "observed_now": run_shape(case["shape"])}, indent=1))
        elif "observation" in case:
            o = case["observation"]
            print(json.dumps({"edges": o["es"], "observed_now": real_graph([tuple(e) for e in o["es"]])}, indent=1, default=str))
        else:
            print(json.dumps(data, indent=1))
        sys.exit(0)
    sys.exit(main(args))
