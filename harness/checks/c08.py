"""C08 — parse, validate, dump, save, merge and instantiate never modify what they are given.

  MC      tlc MC_Heap: every container nesting up to Depth over {list, dict, tuple, set, Optional} x {int, enum} leaves x
          {adapted, raw, bad} flavours x {top level, nested group} x {dict, Namespace} argument x every public operation;
          the Alg layer of Heap.tla (recreate_branches copies Namespace/dict/list and shares tuple/set; adapt_typehints
          assigns list/dict elements back in place; the operations built from them) is checked against the frame property:
          CopyingOpsFrame, OnlyBelowTuple, AdaptedIsSafe, DumpRewritesOnlySerialised, ParseObjectDictShape, CloneLaws,
          FailureSameRoutes, Idempotent.  TLC prints every case with the Alg verdict (flagged / cleared).
          tlc MC_Context (shared with C09): Balanced - every try/finally manager (context variables, cwd,
          argparse.Namespace) is restored on return and on exception.
  REPLAY  (spec -> code) every emitted case is built for real (typing hint, parser, argument object), the operation is
          executed, and a deep snapshot (value, type, identity of every nested container) of the argument, the declared
          defaults, os.environ, cwd, argparse.Namespace and sys.argv is taken before and after - also when the call raises.
  TRACE   (code -> spec) seeded random histories on a parser with nested groups, a sub-command, class-typed arguments with
          lazy defaults, a config argument and config files in another directory: results of earlier calls are fed to later
          calls; every call is snapshotted the same way; double instantiation records the identities of all built objects.
  TLC (Trace_Heap) decides every recorded event: Ref = Frame / Fresh (verdict); Alg = the observed post-heap is exactly the
  one Heap.tla computes (named deviations "arg" and "below-tuple"; anything else is reported).
"""
from __future__ import annotations

import argparse
import hashlib
import json
import os
import signal
import sys
from collections import OrderedDict
from enum import Enum
from typing import Dict, List, Optional, Set, Tuple

from ..lib import common, tlc
from ..lib.evidence import Report, machinery_failure
from . import c08x

common.check_repo_import()
import jsonargparse  # noqa: E402
from jsonargparse import ActionConfigFile, ArgumentParser, Namespace, lazy_instance  # noqa: E402

PID = "C08"
MODNAME = "harness.checks.c08"  # the classes below are always used through this (properly imported) module, see the end of the file
_STD_NAMESPACE = argparse.Namespace


class Color(Enum):
    RED = 1
    GREEN = 2


class Inner:
    def __init__(self, q: int = 1):
        self.q = q


class Base:
    def __init__(self, n: int = 1, inner: Inner = lazy_instance(Inner, q=7)):
        self.n = n
        self.inner = inner


class Sub1(Base):
    def __init__(self, n: int = 2, m: str = "m", inner: Inner = lazy_instance(Inner, q=8)):
        super().__init__(n, inner)
        self.m = m


USER_CLASSES = (Inner, Base)
CLASS_NAMES = {}
for _c in ("Inner", "Base", "Sub1"):
    CLASS_NAMES[_c] = _c
    CLASS_NAMES[MODNAME + "." + _c] = _c
TCLS = {"k": "cls", "a": []}
CLS_KEYS = {"cls": TCLS, "lc": {"k": "list", "a": [TCLS]}, "oc": {"k": "opt", "a": [TCLS]}, "lk": TCLS}


def tot_fn(src):
    return src * 3


def add_links(parser):
    """two links applied on parse: a plain target (--tot = 3 * --src) and an init_args target of a class argument (--lk)."""
    parser.add_argument("--src", type=int, default=2)
    parser.add_argument("--tot", type=int, default=0)
    parser.add_argument("--lk", type=Base, default=lazy_instance(Sub1, m="k"))
    parser.link_arguments("src", "tot", compute_fn=tot_fn)
    parser.link_arguments("src", "lk.init_args.n")


# ------------------------------------------------------------------------------------------------ alpha: deep snapshots
class Snapper:
    """abstract heaps of successive snapshots share one identity map: an object keeps its name as long as it lives."""

    def __init__(self):
        self.names = {}  # id(obj) -> abstract id
        self.keep = []  # references, so that id() values are never recycled
        self.count = 0

    def _name(self, x) -> str:
        k = id(x)
        if k not in self.names:
            self.count += 1
            self.names[k] = f"o{self.count}"
            self.keep.append(x)
        return self.names[k]

    @staticmethod
    def scalar(x) -> dict:
        if x is None:
            return {"k": "s", "v": "None", "y": "none"}
        if isinstance(x, Color):
            return {"k": "s", "v": x.name, "y": "enum"}
        if isinstance(x, bool):
            return {"k": "s", "v": repr(x), "y": "other"}
        if isinstance(x, int):
            return {"k": "s", "v": str(x), "y": "int"}
        if isinstance(x, str):
            if x in CLASS_NAMES:  # a class_path in any spelling: rendered by the class it names
                return {"k": "s", "v": CLASS_NAMES[x], "y": "clspath"}
            if x in Color.__members__:
                return {"k": "s", "v": x, "y": "enumstr"}
            if x.isdigit() and (x == "0" or not x.startswith("0")):
                return {"k": "s", "v": x, "y": "numstr"}
            return {"k": "s", "v": x[:60], "y": "str"}
        return {"k": "s", "v": (type(x).__name__ + ":" + repr(x))[:80].replace("0x", "@"), "y": "other"}

    def child(self, x, heap: dict, stack=()) -> dict:
        kind = None
        if isinstance(x, Namespace):
            kind, items = "ns", list(vars(x).items())
        elif isinstance(x, OrderedDict):
            kind, items = "odict", list(x.items())
        elif isinstance(x, dict):
            kind, items = "dict", list(x.items())
        elif isinstance(x, list):
            kind, items = "list", list(enumerate(x))
        elif isinstance(x, tuple):
            kind, items = "tuple", list(enumerate(x))
        elif isinstance(x, (set, frozenset)):
            kind, items = "set", list(enumerate(sorted(x, key=repr)))
        elif isinstance(x, USER_CLASSES):
            kind, items = "obj", [("__class__", type(x).__name__)] + sorted(vars(x).items())
        if kind is None:
            return self.scalar(x)
        if id(x) in stack:
            return {"k": "s", "v": "cycle", "y": "other"}
        name = self._name(x)
        if name not in heap:
            heap[name] = None  # reserve (shared sub-objects are described once)
            heap[name] = {"t": kind, "c": [[str(k), self.child(v, heap, stack + (id(x),))] for k, v in items]}
        return {"k": "r", "v": name, "y": ""}


def process_roots() -> dict:
    env = hashlib.sha1(json.dumps(sorted(os.environ.items())).encode()).hexdigest()[:12]
    return {"environ": {"k": "s", "v": env, "y": "other"}, "cwd": {"k": "s", "v": os.getcwd(), "y": "other"},
            "argparse_ns": {"k": "s", "v": "std" if argparse.Namespace is _STD_NAMESPACE else "patched", "y": "other"},
            "sys_argv": {"k": "s", "v": hashlib.sha1(repr(sys.argv).encode()).hexdigest()[:12], "y": "other"},
            "sys_path": {"k": "s", "v": hashlib.sha1(repr(sys.path).encode()).hexdigest()[:12], "y": "other"},
            "path_dir": {"k": "s", "v": str(c08x.current_path_dir.get()), "y": "other"}}


def declared_defaults(parser, prefix="") -> list:
    out = []
    for a in parser._actions:
        if a.dest in ("help", "print_config", "print_shtab") or a.default == argparse.SUPPRESS or a.dest == argparse.SUPPRESS:
            continue
        if type(a).__name__ == "_ActionSubCommands":
            for name, sp in a.choices.items():
                out += declared_defaults(sp, prefix + name + ".")
            continue
        out.append((prefix + a.dest, a.default))
    return out


def snapshot(snap: Snapper, named: dict, parser) -> tuple:
    """(heap, roots) of the named argument objects, the declared defaults of the parser and the process state."""
    heap, roots = {}, {}
    for name, obj in named.items():
        roots[name] = snap.child(obj, heap)
    if parser is not None:
        dd = declared_defaults(parser)
        heap["DEFAULTS"] = {"t": "ns", "c": [[k, snap.child(v, heap)] for k, v in dd]}
        roots["defaults"] = {"k": "r", "v": "DEFAULTS", "y": ""}
    roots.update(process_roots())
    return heap, roots


def built_objects(x, acc: set, seen: set, desc=None, path="") -> None:
    """identities of all instances of the user classes reachable in an instantiated configuration."""
    if id(x) in seen:
        return
    seen.add(id(x))
    if isinstance(x, USER_CLASSES):
        acc.add(id(x))
        if desc is not None:
            desc[str(id(x))] = f"{path}: {type(x).__name__}"
        for k, v in vars(x).items():
            built_objects(v, acc, seen, desc, path + "." + k)
    elif isinstance(x, Namespace):
        for k, v in vars(x).items():
            built_objects(v, acc, seen, desc, path + "." + k)
    elif isinstance(x, dict):
        for k, v in x.items():
            built_objects(v, acc, seen, desc, path + "." + str(k))
    elif isinstance(x, (list, tuple, set, frozenset)):
        for i, v in enumerate(x):
            built_objects(v, acc, seen, desc, path + f"[{i}]")


# ------------------------------------------------------------------------------------------------ gamma: types and values
def hint(T: dict):
    k = T["k"]
    if k == "int":
        return int
    if k == "str":
        return str
    if k == "enum":
        return Color
    a = [hint(t) for t in T["a"]]
    if k == "opt":
        return Optional[a[0]]
    if k == "list":
        return List[a[0]]
    if k == "dict":
        return Dict[str, a[0]]
    if k == "set":
        return Set[a[0]]
    if k == "tuple":
        return Tuple[tuple(a)]
    if k == "union":  # typing caches Union[...] modulo the order of the members: clear the caches and read the built hint back
        import typing

        for fn in typing._cleanups:
            fn()
        u = typing.Union[tuple(a)]
        if list(u.__args__) != a:
            raise RuntimeError(f"typing built {u} for the members {a}")
        return u
    raise AssertionError(T)


def value_of(heap: dict, ch: dict, memo: dict):
    """the real object described by child `ch` of an abstract heap (shared nodes become shared objects)."""
    if ch["k"] == "s":
        y, v = ch["y"], ch["v"]
        if y == "int":
            return int(v)
        if y == "enum":
            return Color[v]
        if y == "none":
            return None
        return v
    name = ch["v"]
    if name in memo:
        return memo[name]
    cell = heap[name]
    t = cell["t"]
    if t == "list":
        memo[name] = out = []
        out.extend(value_of(heap, c, memo) for _, c in cell["c"])
    elif t == "dict":
        memo[name] = out = {}
        for key, c in cell["c"]:
            out[key] = value_of(heap, c, memo)
    elif t == "ns":
        memo[name] = out = Namespace()
        for key, c in cell["c"]:
            out[key] = value_of(heap, c, memo)
    elif t == "tuple":
        memo[name] = out = tuple(value_of(heap, c, memo) for _, c in cell["c"])
    elif t == "set":
        memo[name] = out = set(value_of(heap, c, memo) for _, c in cell["c"])
    else:
        raise AssertionError(t)
    return out


def call_op(op: str, parser, arg, scratch: str):
    if op == "parse_object":
        return parser.parse_object(arg)
    if op == "validate":
        return parser.validate(arg)
    if op == "dump":
        return parser.dump(arg)
    if op == "instantiate_classes":
        return parser.instantiate_classes(arg)
    if op == "merge_config":
        return parser.merge_config(arg, Namespace())
    if op == "strip_unknown":
        return parser.strip_unknown(arg)
    if op == "get_defaults":
        return parser.get_defaults()
    if op == "save":
        return parser.save(arg, os.path.join(scratch, "saved.yaml"), overwrite=True)
    if op == "format_help":
        return parser.format_help()
    if op == "parse_args":
        return parser.parse_args([])
    if op == "parse_args_ns":
        return parser.parse_args([], namespace=arg)
    raise AssertionError(op)


def observe_call(op, parser, named: dict, argname: str, keys: list, fn, dinfo=None) -> dict:
    """snapshot, call, snapshot: one `call` event.  dinfo: what AlgCall needs to know about the declared defaults."""
    snap = Snapper()
    hpre, rpre = snapshot(snap, named, parser)
    try:
        ret = fn()
        ok = True
    except BaseException as ex:  # noqa: BLE001  (SystemExit included: also a way a call ends)
        ret, ok = None, False
        exc = f"{type(ex).__name__}: {str(ex)[:200]}"
    hpost, rpost = snapshot(snap, named, parser)
    dinfo = dinfo or {}
    ev = {"kind": "call", "op": op, "ok": ok, "cmpok": False, "arg": argname, "keys": keys, "dkeys": dinfo.get("dkeys", []),
          "dactive": dinfo.get("dactive", []), "dcf": bool(dinfo.get("dcf", False)), "sdef": bool(dinfo.get("sdef", False)),
          "pser": bool(dinfo.get("pser", False)),
          "hpre": hpre, "rpre": rpre, "hpost": hpost, "rpost": rpost}
    ev["_exc"] = "" if ok else exc
    ev["_ret"] = ret
    return ev


# ------------------------------------------------------------------------------------------------ REPLAY of the cases emitted by MC_Heap
def replay_cases(task: dict) -> list:
    """a forked child: the emitted cases of one batch, executed for real."""
    signal.alarm(600)
    d = str(common.scratch("c08"))
    os.chdir(d)
    events = []
    try:
        for case in task["cases"]:
            T, op, pl = case["T"], case["op"], case["pl"]
            heap = case["h"]
            vkey = "g.v" if pl == "grp" else "v"
            on_defaults = op in ("get_defaults", "format_help", "parse_args")
            if on_defaults:  # the emitted node maps dest -> declared default
                memo = {}
                dvals = {key: value_of(heap, ch, memo) for key, ch in heap[case["arg"]["v"]]["c"]}
                arg = None
            else:
                arg = value_of(heap, case["arg"], {})
            p = ArgumentParser(exit_on_error=False)
            kw = {}
            if on_defaults:
                kw = {"v": {"default": dvals[vkey]}, "w": {"default": dvals["w"]}}
            holder = p
            if pl == "sub":  # a root parser with nothing but sub-commands: the typed keys live in the parser of sub-command s
                holder = ArgumentParser(exit_on_error=False)
            holder.add_argument("--" + vkey, type=hint(T), **kw.get("v", {}))
            holder.add_argument("--w", type=Tuple[int, List[int]], **kw.get("w", {}))
            if pl == "sub":
                p.add_subcommands(required=False).add_subcommand("s", holder)
            if on_defaults:
                dk = [{"p": k["p"], "T": k["T"], "d": k["d"]} for k in case["keys"]]
                ev = observe_call(op, p, {}, "", [], lambda: call_op(op, p, None, d), {"dkeys": dk, "dactive": dk})
            else:
                keys = [{"p": k["p"], "T": k["T"], "d": k["d"]} for k in case["keys"]]
                ev = observe_call("parse_args" if op == "parse_args_ns" else op, p, {"arg": arg}, "arg", keys, lambda: call_op(op, p, arg, d))
            ev.pop("_ret")
            ev["cmpok"] = True
            ev["_case"] = {k: case[k] for k in ("T", "fl", "op", "root", "pl", "flagged", "value", "ok")}
            events.append(ev)
        return events
    finally:
        os.chdir("/")
        common.rm(d)


def pool_map(fn, tasks, procs=14):
    """fn(task) for every task, each in its own freshly forked child; results in task order."""
    import pickle
    import select

    results = [None] * len(tasks)
    running = {}
    nxt = 0
    while nxt < len(tasks) or running:
        while nxt < len(tasks) and len(running) < procs:
            r, w = os.pipe()
            pid = os.fork()
            if pid == 0:
                try:
                    os.close(r)
                    try:
                        payload = pickle.dumps(("ok", fn(tasks[nxt])))
                    except BaseException as ex:  # noqa: BLE001
                        import traceback

                        payload = pickle.dumps(("err", f"{type(ex).__name__}: {ex}\n{traceback.format_exc()[-1500:]}"))
                    with os.fdopen(w, "wb") as f:
                        f.write(payload)
                finally:
                    os._exit(0)
            os.close(w)
            running[r] = (nxt, pid, [])
            nxt += 1
        ready, _, _ = select.select(list(running), [], [], 5.0)
        for fd in ready:
            data = os.read(fd, 1 << 20)
            if data:
                running[fd][2].append(data)
                continue
            i, pid, chunks = running.pop(fd)
            os.close(fd)
            os.waitpid(pid, 0)
            try:
                kind, val = pickle.loads(b"".join(chunks))
            except Exception:  # noqa: BLE001
                kind, val = "err", "child died without a result"
            if kind != "ok":
                raise RuntimeError(f"task {i}: {val}")
            results[i] = val
    return results


# ------------------------------------------------------------------------------------------------ TRACE: random histories on a rich parser
RICH_TYPES = {
    "li": {"k": "list", "a": [{"k": "int", "a": []}]},
    "lli": {"k": "list", "a": [{"k": "list", "a": [{"k": "int", "a": []}]}]},
    "dli": {"k": "dict", "a": [{"k": "list", "a": [{"k": "int", "a": []}]}]},
    "tl": {"k": "tuple", "a": [{"k": "int", "a": []}, {"k": "list", "a": [{"k": "int", "a": []}]}]},
    "tle": {"k": "tuple", "a": [{"k": "int", "a": []}, {"k": "list", "a": [{"k": "enum", "a": []}]}]},
    "tdt": {"k": "tuple", "a": [{"k": "int", "a": []}, {"k": "dict", "a": [{"k": "tuple", "a": [{"k": "int", "a": []}, {"k": "int", "a": []}]}]}]},
    "se": {"k": "set", "a": [{"k": "enum", "a": []}]},
    "ol": {"k": "opt", "a": [{"k": "list", "a": [{"k": "int", "a": []}]}]},
    "lt": {"k": "list", "a": [{"k": "tuple", "a": [{"k": "int", "a": []}, {"k": "list", "a": [{"k": "int", "a": []}]}]}]},
    "e": {"k": "enum", "a": []},
    "i": {"k": "int", "a": []},
    # round 4: Unions other than Optional (members tried in order on the same object), alone and below a tuple
    "ul": {"k": "union", "a": [{"k": "list", "a": [{"k": "int", "a": []}]}, {"k": "list", "a": [{"k": "str", "a": []}]}]},
    "tu": {"k": "tuple", "a": [{"k": "int", "a": []}, {"k": "union", "a": [{"k": "list", "a": [{"k": "int", "a": []}]}, {"k": "dict", "a": [{"k": "int", "a": []}]}]}]},
}
RICH_DEFAULTS = {"li": [1], "lli": [[1], [2]], "dli": {"a": [1]}, "tl": (0, [0]), "tle": (0, [Color.RED]), "tdt": (0, {"a": (1, 2)}),
                 "se": {Color.RED}, "ol": None, "lt": [(1, [2])], "e": Color.GREEN, "i": 3, "ul": ["s1"], "tu": (0, {"a": 1})}
TOP = ["li", "lli", "tl", "tle", "se", "ol", "e", "i", "ul", "tu"]
GROUP = ["dli", "tdt", "lt"]  # declared as --g.<name>
SUBA = ["li", "tl"]  # declared in sub-command a


def build_rich(scratch: str):
    p = ArgumentParser(prog="rich", exit_on_error=False, env_prefix="RICH", default_env=False,
                       default_config_files=[os.path.join(scratch, "dcf", "*.yaml")])
    p.add_argument("--cfg", action=ActionConfigFile)
    for n in TOP:
        p.add_argument("--" + n, type=hint(RICH_TYPES[n]), default=RICH_DEFAULTS[n])
    for n in GROUP:
        p.add_argument("--g." + n, type=hint(RICH_TYPES[n]), default=RICH_DEFAULTS[n])
    p.add_argument("--cls", type=Base, default=lazy_instance(Sub1, m="d"))
    p.add_argument("--lc", type=List[Base], default=[{"class_path": MODNAME + ".Base", "init_args": {"n": 4}}])
    p.add_argument("--oc", type=Optional[Base], default=None)
    add_links(p)
    sc = p.add_subcommands(required=False)
    a = ArgumentParser(exit_on_error=False)
    for n in SUBA:
        a.add_argument("--" + n, type=hint(RICH_TYPES[n]), default=RICH_DEFAULTS[n])
    sc.add_subcommand("a", a)
    return p


def rand_value(T: dict, rnd, fl: str):
    """a value of type T in flavour adapted / raw (texts) / bad (one leaf is rejected); mixed flavours below containers."""
    k = T["k"]
    if k == "int":
        n = rnd.randint(0, 9)
        return "x" if fl == "bad" else (str(n) if fl == "raw" else n)
    if k == "enum":
        m = rnd.choice(["RED", "GREEN"])
        return "x" if fl == "bad" else (m if fl == "raw" else Color[m])
    if k == "str":
        return "x" if fl == "bad" else (str(rnd.randint(0, 9)) if fl == "raw" else "s%d" % rnd.randint(0, 9))
    if k == "union":
        return rand_value(rnd.choice(T["a"]), rnd, fl)
    if k == "opt":
        return None if (rnd.random() < 0.2 and fl != "bad") else rand_value(T["a"][0], rnd, fl)
    n = rnd.randint(1, 3)
    bad_at = rnd.randrange(n) if fl == "bad" else -1

    def sub(i, t):
        f = "bad" if i == bad_at else (rnd.choice(["raw", "adapted"]) if fl in ("raw", "bad") else "adapted")
        return rand_value(t, rnd, f)

    if k == "list":
        return [sub(i, T["a"][0]) for i in range(n)]
    if k == "dict":
        return {"k%d" % i: sub(i, T["a"][0]) for i in range(n)}
    if k == "set":
        try:
            return set(sub(i, T["a"][0]) for i in range(n))
        except TypeError:
            return set()
    if k == "tuple":
        n = len(T["a"])
        bad_at = rnd.randrange(n) if fl == "bad" else -1
        return tuple(sub(i, t) for i, t in enumerate(T["a"]))
    raise AssertionError(T)


def rand_config(rnd, as_dict: bool, fl_weights=(5, 4, 1), dict_group=False):
    """a configuration object for the rich parser: (object, keys) with keys = typed keys present, in the object's order."""
    order = _rank()
    top = {}
    keys = []
    names = rnd.sample(TOP, rnd.randint(1, 4))
    grp = rnd.sample(GROUP, rnd.randint(0, 2))
    items = [(n, None) for n in names]
    if grp:
        items.insert(rnd.randrange(len(items) + 1), ("g", grp))
    for n, g in items:
        if g is None:
            fl = rnd.choices(["adapted", "raw", "bad"], fl_weights)[0]
            top[n] = rand_value(RICH_TYPES[n], rnd, fl)
            keys.append({"p": [n], "T": RICH_TYPES[n], "d": order[n]})
        else:
            sub = {}
            for m in g:
                fl = rnd.choices(["adapted", "raw", "bad"], fl_weights)[0]
                sub[m] = rand_value(RICH_TYPES[m], rnd, fl)
                keys.append({"p": ["g", m], "T": RICH_TYPES[m], "d": order["g." + m]})
            top["g"] = sub if (as_dict or dict_group) else Namespace(**sub)  # only parse_object looks inside a dict
    if rnd.random() < 0.3:
        spec = {"class_path": rnd.choice(["Sub1", MODNAME + ".Base"]), "init_args": {"n": rnd.choice([5, "6"])}}
        top["cls"] = spec if (as_dict or rnd.random() < 0.5) else Namespace(class_path=spec["class_path"], init_args=Namespace(**spec["init_args"]))
        if rnd.random() < 0.3 and not isinstance(top["cls"], dict):
            del top["cls"]["init_args"]
        keys.append({"p": ["cls"], "T": TCLS, "d": order["cls"]})
    return (top if as_dict else Namespace(**top)), keys


def typed_keys_of(cfg) -> list:
    """the typed keys present in a configuration returned by an earlier call, in its own order."""
    order = _rank()
    keys = []
    for k, v in vars(cfg).items():
        if k in TOP:
            keys.append({"p": [k], "T": RICH_TYPES[k], "d": order[k]})
        elif k in CLS_KEYS:
            keys.append({"p": [k], "T": CLS_KEYS[k], "d": order[k]})
        elif k == "g" and isinstance(v, Namespace):
            for m in vars(v):
                if m in GROUP:
                    keys.append({"p": ["g", m], "T": RICH_TYPES[m], "d": order["g." + m]})
        elif k == "a" and isinstance(v, Namespace):
            for m in vars(v):
                if m in SUBA:
                    keys.append({"p": ["a", m], "T": RICH_TYPES[m], "d": 100 + SUBA.index(m)})
    return keys


def _rank():
    return {n: i + 1 for i, n in enumerate(TOP + ["g." + n for n in GROUP] + list(CLS_KEYS))}


def default_keys(given=(), sub_a=False) -> list:
    """typed keys of the declared defaults (dest -> default) that are not overridden by `given`."""
    rk = _rank()
    out = [{"p": [n], "T": RICH_TYPES[n.split(".")[-1]], "d": rk[n]} for n in TOP + ["g." + n for n in GROUP] if n not in given]
    if sub_a:
        out += [{"p": ["a." + n], "T": RICH_TYPES[n], "d": 100 + i} for i, n in enumerate(SUBA) if "a." + n not in given]
    return out


def dests_of(keys) -> set:
    return {".".join(k["p"]) for k in keys}


def random_history(task: dict) -> list:
    """a forked child: one history of calls on one rich parser; every call is snapshotted before and after."""
    import random

    signal.alarm(600)
    rnd = random.Random(task["seed"])
    d = str(common.scratch("c08h"))
    os.makedirs(os.path.join(d, "dcf"))
    os.makedirs(os.path.join(d, "sub"))
    os.makedirs(os.path.join(d, "elsewhere"))
    with open(os.path.join(d, "sub", "ok.yaml"), "w") as f:
        f.write("li: [4, 5]\ntl: [1, [2]]\n")
    with open(os.path.join(d, "sub", "bad.yaml"), "w") as f:
        f.write("li: [4, x]\n")
    if task.get("dcf"):
        with open(os.path.join(d, "dcf", "1.yaml"), "w") as f:
            f.write("i: 8\nlli: [[3]]\n")
    os.chdir(d)
    events = []
    try:
        p = build_rich(d)
        results = []  # configurations returned by earlier calls

        dcf_given = {"i", "lli"} if task.get("dcf") else set()

        def dinfo(given=(), sub_a=False, **flags):
            g = set(given) | dcf_given
            return {"dkeys": default_keys(dcf_given), "dactive": default_keys(g, sub_a), "dcf": bool(task.get("dcf")), **flags}

        def emit(op, named, argname, keys, fn, note="", di=None):
            ev = observe_call(op, p, named, argname, keys, fn, di if di is not None else dinfo())
            ret = ev.pop("_ret")
            ev["_note"] = note
            events.append(ev)
            return ret if ev["ok"] else None

        import contextlib
        import io

        def quiet(fn):
            def run():
                with contextlib.redirect_stdout(io.StringIO()), contextlib.redirect_stderr(io.StringIO()):
                    return fn()
            return run

        ARGVS = [([], (), False, False), (["--li=[1,2]"], ("li",), False, False), (["--li+=3", "--g.dli.a=[4]"], ("li", "g.dli"), False, False),
                 (["--tl=[1,[2]]", "a", "--li=[5]"], ("tl", "a.li"), True, False), (["--li=[x]"], (), False, False),
                 (["--cfg", "sub/ok.yaml"], ("li", "tl"), False, False), (["--cfg", "sub/bad.yaml"], (), False, False),
                 (["--cls=Base", "--cls.n=3"], (), False, False), (["--help"], (), False, False), (["--print_config"], (), False, True),
                 (["--se=[RED,GREEN]", "--print_config"], ("se",), False, True),
                 (["--lc+=Sub1"], (), False, False), (["--se=[RED,GREEN]"], ("se",), False, False), (["--oc=Sub1", "--oc.m=z"], (), False, False),
                 (["--src=5"], (), False, False), (["--src=4", "--lk=Base", "--li=[7]"], ("li",), False, False),
                 (["a", "--tl=[3,[x]]"], (), True, False)]
        TEXTS = [("li: [1, 2]\n", ("li",), False), ("g:\n  dli:\n    a: [1]\n", ("g.dli",), False), ("li: [x]\n", (), False),
                 ("tl: [1, [2, 3]]\ncls:\n  class_path: Sub1\n", ("tl",), False), ("a:\n  li: [9]\n", ("a.li",), True)]
        ENVS = [({"RICH_LI": "[1]"}, ("li",)), ({"RICH_I": "x"}, ()), ({"RICH_TL": "[1,[2]]", "RICH_E": "RED"}, ("tl", "e"))]
        for _ in range(rnd.randint(3, task["maxlen"])):
            r = rnd.random()
            prior = rnd.choice(results) if results and rnd.random() < 0.5 else None
            if r < 0.22:  # parse_object of a dict / Namespace
                obj, keys = rand_config(rnd, rnd.random() < 0.6, dict_group=rnd.random() < 0.3)
                ret = emit("parse_object", {"arg": obj}, "arg", keys, lambda: p.parse_object(obj), "random object", dinfo(dests_of(keys)))
            elif r < 0.36:  # parse_args: the argv list and an optional namespace are the arguments
                argv, given, sub_a, pser = rnd.choice(ARGVS)
                ns = prior.clone() if (prior is not None and rnd.random() < 0.4) else None
                named = {"argv": argv} if ns is None else {"argv": argv, "arg": ns}
                kw = {} if ns is None else {"namespace": ns}
                nk = typed_keys_of(ns) if ns is not None else []
                di = dinfo(set(given) | dests_of(nk), sub_a or (ns is not None and "a" in ns), pser=pser)
                ret = emit("parse_args", named, "arg" if ns is not None else "", nk, quiet(lambda: p.parse_args(argv, **kw)), "argv", di)
            elif r < 0.42:
                text, given, sub_a = rnd.choice(TEXTS)
                ret = emit("parse_string", {"text": text}, "", [], lambda: p.parse_string(text), "text", dinfo(given, sub_a))
            elif r < 0.47:
                env, given = rnd.choice(ENVS)
                ret = emit("parse_env", {"env": env}, "", [], lambda: p.parse_env(env), "env dict", dinfo(given))
            elif r < 0.52:
                path, given = rnd.choice([("sub/ok.yaml", ("li", "tl")), ("sub/bad.yaml", ()), ("sub/missing.yaml", ())])
                if path != "sub/missing.yaml" and rnd.random() < 0.5:
                    # round 4: a Path OBJECT created here (process in the scratch directory) is handed over after the process has
                    # moved to another directory: cwd (a root of the snapshot) must be that other directory afterwards
                    po = jsonargparse.Path(path, mode="fr")
                    other = rnd.choice(["sub", "dcf", "elsewhere"])
                    os.chdir(os.path.join(d, other))
                    try:
                        ret = emit("parse_path", {"path": po}, "", [], lambda: p.parse_path(po), f"Path object created in the scratch directory, process now in {other}/", dinfo(given))
                    finally:
                        os.chdir(d)
                else:
                    ret = emit("parse_path", {"path": path}, "", [], lambda: p.parse_path(path), "config file in another directory", dinfo(given))
            elif r < 0.57:
                ret = emit("get_defaults", {}, "", [], lambda: p.get_defaults(), "")
            elif r < 0.60:
                emit("format_help", {}, "", [], lambda: p.format_help(), "")
                ret = None
            else:
                # operations on a configuration: an earlier result (adapted values) or a hand-made Namespace (raw / bad values)
                if prior is not None and rnd.random() < 0.6:
                    cfg, keys, note = prior, typed_keys_of(prior), "earlier result"
                else:
                    cfg, keys = rand_config(rnd, False, (4, 4, 2))
                    note = "hand-made Namespace"
                op = rnd.choice(["validate", "dump", "dump", "instantiate_classes", "merge_config", "strip_unknown", "save", "parse_object", "clone"])
                if op == "validate":
                    ret = emit(op, {"arg": cfg}, "arg", keys, lambda: p.validate(cfg), note)
                elif op == "dump":
                    kw = rnd.choice([{}, {"format": "json"}, {"skip_none": False}, {"skip_default": True}, {"skip_link_targets": False}])
                    emit(op, {"arg": cfg}, "arg", keys, lambda: p.dump(cfg, **kw), note + f" {kw}", dinfo(sdef=bool(kw.get("skip_default"))))
                    ret = None
                elif op == "instantiate_classes":
                    ret = emit(op, {"arg": cfg}, "arg", keys, lambda: p.instantiate_classes(cfg), note)
                    if ret is not None and note == "earlier result":  # Fresh: instantiate the same configuration again
                        snap_old = set()
                        built_objects(cfg, snap_old, set())
                        for _k, dv in declared_defaults(p):
                            built_objects(dv, snap_old, set())
                        o1, o2, desc = set(), set(), {}
                        built_objects(ret, o1, set(), desc, "first")
                        ret2 = p.instantiate_classes(cfg)
                        built_objects(ret2, o2, set(), desc, "second")
                        events.append({"kind": "fresh", "objs1": sorted(str(x) for x in o1), "objs2": sorted(str(x) for x in o2),
                                       "old": sorted(str(x) for x in snap_old), "_note": f"{len(o1)} / {len(o2)} objects", "_desc": desc, "_cfg": repr(cfg)[:1500],
                                       "_keep": (ret, ret2)})
                    ret = None
                elif op == "merge_config":
                    other = prior if prior is not None else Namespace()
                    if rnd.random() < 0.5:
                        ret = emit(op, {"arg": cfg, "other": other}, "arg", keys, lambda: p.merge_config(cfg, other), note + " as cfg_from")
                    else:
                        ret = emit(op, {"arg": cfg, "other": other}, "arg", keys, lambda: p.merge_config(other, cfg), note + " as cfg_to")
                elif op == "strip_unknown":
                    ret = emit(op, {"arg": cfg}, "arg", keys, lambda: p.strip_unknown(cfg), note)
                elif op == "save":
                    path = os.path.join(d, "out%d.yaml" % len(events))
                    if rnd.random() < 0.35:  # single-file mode is dump() into a file: op "save1"
                        emit("save1", {"arg": cfg, "path": path}, "arg", keys, lambda: p.save(cfg, path, overwrite=True, multifile=False), note)
                    else:
                        ow = rnd.random() < 0.8  # sometimes a save that refuses to overwrite (raises after the copy was made)
                        if not ow:
                            open(path, "w").close()
                        # a refused save stops at check_overwrite (_core.py:907), before any copy or validation: op "save_refused"
                        if rnd.random() < 0.3:  # round 4: the target is a Path object created here, the process is elsewhere when save is called
                            po = jsonargparse.Path(os.path.basename(path), mode="fc")
                            os.chdir(os.path.join(d, rnd.choice(["sub", "elsewhere"])))
                            try:
                                emit(op if ow else "save_refused", {"arg": cfg, "path": po}, "arg", keys, lambda: p.save(cfg, po, overwrite=ow), note + ", Path object, process elsewhere")
                            finally:
                                os.chdir(d)
                        else:
                            emit(op if ow else "save_refused", {"arg": cfg, "path": path}, "arg", keys, lambda: p.save(cfg, path, overwrite=ow), note)
                    ret = None
                elif op == "clone":
                    ret = emit(op, {"arg": cfg}, "arg", keys, lambda: cfg.clone(), note)
                else:
                    ret = emit("parse_object", {"arg": cfg}, "arg", keys, lambda: p.parse_object(cfg), note + " (Namespace)",
                               dinfo(dests_of(keys), isinstance(cfg.get("a"), Namespace)))
            if isinstance(ret, Namespace) and len(results) < 6 and events[-1].get("op", "").startswith(("parse_", "get_defaults")):
                results.append(ret)  # only what a parse returned (valid, adapted) is fed to later calls as an "earlier result"
        # epilogue (every history): one configuration returned by a parse - it carries the targets of the parse-time links -
        # goes through save (both modes), dump, validate and instantiate_classes, each between two deep snapshots
        cfg = next((r for r in results if "tot" in r), None)
        if cfg is None:
            cfg = emit("parse_args", {"argv": ["--src=6"]}, "", [], quiet(lambda: p.parse_args(["--src=6"])), "epilogue", dinfo())
        if cfg is not None:
            keys = typed_keys_of(cfg)
            emit("save", {"arg": cfg}, "arg", keys, lambda: p.save(cfg, os.path.join(d, "epi.yaml"), overwrite=True), "epilogue, earlier result")
            emit("save1", {"arg": cfg}, "arg", keys, lambda: p.save(cfg, os.path.join(d, "epi1.yaml"), overwrite=True, multifile=False), "epilogue, earlier result")
            emit("dump", {"arg": cfg}, "arg", keys, lambda: p.dump(cfg, skip_link_targets=False), "epilogue, earlier result")
            emit("validate", {"arg": cfg}, "arg", keys, lambda: p.validate(cfg), "epilogue, earlier result")
            emit("instantiate_classes", {"arg": cfg}, "arg", keys, lambda: p.instantiate_classes(cfg), "epilogue, earlier result")
        for ev in events:
            ev.pop("_keep", None)
        return events
    finally:
        os.chdir("/")
        common.rm(d)


# ------------------------------------------------------------------------------------------------ TRACE: a root parser with ONLY sub-commands
FIT_KEYS = ["li", "tl", "tle", "lt"]  # container-typed arguments of sub-command fit
FIT_CLS = {"cls": TCLS, "oc": {"k": "opt", "a": [TCLS]}, "lc": {"k": "list", "a": [TCLS]}, "lk": TCLS}


def build_subonly():
    """the root parser owns nothing but --cfg and the sub-commands; every typed / class-typed argument (lazy defaults,
    signature-default specs, links) lives in the parser of a sub-command."""
    import copy

    root = ArgumentParser(prog="only", exit_on_error=False)
    root.add_argument("--cfg", action=ActionConfigFile)
    sc = root.add_subcommands(required=True)
    fit = ArgumentParser(exit_on_error=False)
    for n in FIT_KEYS:
        fit.add_argument("--" + n, type=hint(RICH_TYPES[n]), default=copy.deepcopy(RICH_DEFAULTS[n]))
    fit.add_argument("--cls", type=Base, default=lazy_instance(Sub1, m="d"))
    fit.add_argument("--oc", type=Optional[Base], default=None)
    fit.add_argument("--lc", type=List[Base], default=[{"class_path": MODNAME + ".Base", "init_args": {"n": 4}}])
    add_links(fit)
    tune = ArgumentParser(exit_on_error=False)
    tune.add_argument("--li", type=hint(RICH_TYPES["li"]), default=[3])
    sc.add_subcommand("fit", fit)
    sc.add_subcommand("tune", tune)
    return root


def subonly_keys(cfg) -> list:
    keys = []
    for sub, names in (("fit", FIT_KEYS + list(FIT_CLS)), ("tune", ["li"])):
        v = cfg.get(sub) if isinstance(cfg, Namespace) else None
        if isinstance(v, Namespace):
            for m in vars(v):
                if m in names:
                    keys.append({"p": [sub, m], "T": FIT_CLS[m] if (sub == "fit" and m in FIT_CLS) else RICH_TYPES[m], "d": 1 + names.index(m)})
    return keys


def subonly_defaults(sub: str, given=()) -> list:
    names = FIT_KEYS if sub == "fit" else (["li"] if sub == "tune" else [])
    return [{"p": [f"{sub}.{n}"], "T": RICH_TYPES[n], "d": 1 + i} for i, n in enumerate(names) if f"{sub}.{n}" not in given]


def subonly_history(task: dict) -> list:
    """a forked child: one history on the sub-commands-only parser; configurations returned by parses are validated, dumped,
    saved (both modes), instantiated TWICE (Fresh through a sub-command), stripped, merged - every call snapshotted."""
    import contextlib
    import io
    import random

    signal.alarm(600)
    rnd = random.Random(task["seed"])
    d = str(common.scratch("c08s"))
    os.chdir(d)
    events = []
    try:
        p = build_subonly()
        results = []

        def emit(op, named, argname, keys, fn, note="", di=None):
            ev = observe_call(op, p, named, argname, keys, fn, di or {})
            ret = ev.pop("_ret")
            ev["_note"] = "sub-commands only: " + note
            events.append(ev)
            return ret if ev["ok"] else None

        def quiet(fn):
            def run():
                with contextlib.redirect_stdout(io.StringIO()), contextlib.redirect_stderr(io.StringIO()):
                    return fn()
            return run

        ARGVS = [(["fit"], "fit", (), False), (["fit", "--li=[1,2]"], "fit", ("fit.li",), False), (["fit", "--oc=Sub1", "--src=5"], "fit", (), False),
                 (["fit", "--tl=[1,[x]]"], "fit", (), False), (["tune", "--li=[3]"], "tune", ("tune.li",), False), (["tune"], "tune", (), False),
                 (["fit", "--cls=Base", "--lc+=Sub1"], "fit", (), False), ([], "", (), False), (["--print_config", "fit"], "fit", (), True),
                 (["fit", "--tle=[2,[GREEN]]", "--lk=Base"], "fit", ("fit.tle",), False)]
        for step in range(rnd.randint(3, task["maxlen"])):
            prior = rnd.choice(results) if results else None
            if prior is None or rnd.random() < 0.3:
                argv, sub, given, pser = rnd.choice(ARGVS if results else ARGVS[:3])
                di = {"dkeys": [], "dactive": subonly_defaults(sub, given), "pser": pser}
                ret = emit("parse_args", {"argv": argv}, "", [], quiet(lambda: p.parse_args(argv)), "argv", di)
                if isinstance(ret, Namespace) and len(results) < 5:
                    results.append(ret)
                continue
            cfg, keys = prior, subonly_keys(prior)
            sub = "fit" if isinstance(cfg.get("fit"), Namespace) else "tune"
            op = rnd.choice(["instantiate_classes", "instantiate_classes", "validate", "dump", "save", "save", "strip_unknown", "merge_config", "clone", "parse_object", "get_defaults"])
            if op == "instantiate_classes":
                ret = emit(op, {"arg": cfg}, "arg", keys, lambda: p.instantiate_classes(cfg), "earlier result")
                if ret is not None:  # Fresh through the sub-command: instantiate the same configuration again
                    old = set()
                    built_objects(cfg, old, set())
                    for _k, dv in declared_defaults(p):
                        built_objects(dv, old, set())
                    o1, o2, desc = set(), set(), {}
                    built_objects(ret, o1, set(), desc, "first")
                    ret2 = p.instantiate_classes(cfg)
                    built_objects(ret2, o2, set(), desc, "second")
                    events.append({"kind": "fresh", "objs1": sorted(str(x) for x in o1), "objs2": sorted(str(x) for x in o2),
                                   "old": sorted(str(x) for x in old), "_note": f"sub-commands only: {len(o1)} / {len(o2)} objects", "_desc": desc,
                                   "_cfg": repr(cfg)[:1500], "_keep": (ret, ret2)})
            elif op == "validate":
                emit(op, {"arg": cfg}, "arg", keys, lambda: p.validate(cfg), "earlier result")
            elif op == "dump":
                kw = rnd.choice([{}, {"format": "json"}, {"skip_link_targets": False}, {"skip_none": False}])
                emit(op, {"arg": cfg}, "arg", keys, lambda: p.dump(cfg, **kw), f"earlier result {kw}")
            elif op == "save":
                path = os.path.join(d, "out%d.yaml" % len(events))
                if rnd.random() < 0.4:
                    emit("save1", {"arg": cfg, "path": path}, "arg", keys, lambda: p.save(cfg, path, overwrite=True, multifile=False), "earlier result")
                else:
                    emit("save", {"arg": cfg, "path": path}, "arg", keys, lambda: p.save(cfg, path, overwrite=True), "earlier result")
            elif op == "strip_unknown":
                emit(op, {"arg": cfg}, "arg", keys, lambda: p.strip_unknown(cfg), "earlier result")
            elif op == "merge_config":
                other = rnd.choice(results)
                emit(op, {"arg": cfg, "other": other}, "arg", keys, lambda: p.merge_config(cfg, other), "earlier result as cfg_from")
            elif op == "clone":
                emit(op, {"arg": cfg}, "arg", keys, lambda: cfg.clone(), "earlier result")
            elif op == "get_defaults":
                emit(op, {}, "", [], lambda: p.get_defaults(), "")
            else:
                di = {"dkeys": [], "dactive": subonly_defaults(sub, dests_of(keys))}
                emit("parse_object", {"arg": cfg}, "arg", keys, lambda: p.parse_object(cfg), "earlier result (Namespace)", di)
        # epilogue (every history): a configuration of sub-command fit (link targets, class specs) through the same operations
        cfg = next((r for r in results if isinstance(r.get("fit"), Namespace)), None)
        if cfg is None:
            cfg = emit("parse_args", {"argv": ["fit", "--src=6"]}, "", [], quiet(lambda: p.parse_args(["fit", "--src=6"])), "epilogue",
                       {"dkeys": [], "dactive": subonly_defaults("fit")})
        if cfg is not None:
            keys = subonly_keys(cfg)
            emit("save", {"arg": cfg}, "arg", keys, lambda: p.save(cfg, os.path.join(d, "epi.yaml"), overwrite=True), "epilogue, earlier result")
            emit("save1", {"arg": cfg}, "arg", keys, lambda: p.save(cfg, os.path.join(d, "epi1.yaml"), overwrite=True, multifile=False), "epilogue, earlier result")
            emit("dump", {"arg": cfg}, "arg", keys, lambda: p.dump(cfg, skip_link_targets=False), "epilogue, earlier result")
            emit("validate", {"arg": cfg}, "arg", keys, lambda: p.validate(cfg), "epilogue, earlier result")
            emit("instantiate_classes", {"arg": cfg}, "arg", keys, lambda: p.instantiate_classes(cfg), "epilogue, earlier result")
        for ev in events:
            ev.pop("_keep", None)
        return events
    finally:
        os.chdir("/")
        common.rm(d)


# ------------------------------------------------------------------------------------------------ main
def main(argv):
    tier = "thorough" if (argv and argv[0] == "thorough") else "quick"
    rep = Report(PID, tier)
    rnd = common.rng(PID)
    workers = int(os.environ.get("VERIF_TLC_WORKERS", "16"))
    heap = os.environ.get("VERIF_TLC_HEAP", "8g")
    procs = int(os.environ.get("VERIF_PROCS", "14"))
    rep.assumptions = [
        "alpha: a deep snapshot names every Namespace / dict / OrderedDict / list / tuple / set / user-class instance by identity (references are kept so that identities are never recycled) and renders scalars as (text, kind); the identity of immutable scalars is ignored, a tuple is compared by content",
        "os.environ, cwd, sys.argv and the identity of argparse.Namespace are observed as digests before and after every call, also when it raises",
        "the Alg layer knows the types int / str / enum / Optional / List / Dict[str,.] / Set / Tuple; class-typed keys are observed and judged by the frame property but not predicted",
        "gamma builds typing hints, parsers and argument objects from the emitted abstract cases; every batch of cases and every random history runs in its own forked child",
    ]
    # ---- MC
    cfgname = f"MC_Heap_{tier}"
    mc = tlc.run("MC_Heap", cfgname, workers=workers, heap=heap, timeout=1500)
    rep.add_tlc(cfgname, mc)
    if mc.errors or mc.rc != 0:
        if mc.violated:
            rep.violation("model:" + ",".join(mc.violated), f"TLC: invariant {mc.violated} violated in MC_Heap (the Alg layer reaches the caller's objects outside the recorded routes)",
                          {"tlc_errors": mc.errors, "counterexample": mc.cex[:6000]})
        else:
            machinery_failure(PID, "TLC failed on MC_Heap:\n" + mc.stdout[-3000:])
    mctx = tlc.run("MC_Context", "MC_Context_managed", workers=workers, heap=heap, timeout=1500)
    rep.add_tlc("MC_Context_managed", mctx)
    if mctx.errors or mctx.rc != 0:
        if mctx.violated:
            rep.violation("model:" + ",".join(mctx.violated), f"TLC: {mctx.violated} violated in MC_Context (a managed piece of process state is not restored)", {"cex": mctx.cex[:5000]})
        else:
            machinery_failure(PID, "TLC failed on MC_Context:\n" + mctx.stdout[-3000:])
    # round 4: process state handed to path-directed calls, class families with instance defaults (MC_HeapExt)
    xname = f"MC_HeapExt_{tier}"
    mx = tlc.run("MC_HeapExt", xname, workers=min(workers, 4), heap=heap, timeout=900)
    rep.add_tlc(xname, mx)
    if mx.errors or mx.rc != 0:
        if mx.violated:
            rep.violation("model:" + ",".join(mx.violated), f"TLC: invariant {mx.violated} violated in MC_HeapExt (the Alg layer does not restore the process state / does not derive the spec of an instance default)",
                          {"tlc_errors": mx.errors, "counterexample": mx.cex[:6000]})
        else:
            machinery_failure(PID, "TLC failed on MC_HeapExt:\n" + mx.stdout[-3000:])
    xcases = sorted([p for p in mx.printed if isinstance(p, dict) and p.get("kind") in ("proc", "fresh")], key=lambda c: json.dumps(c, sort_keys=True))
    pcases = [c for c in xcases if c["kind"] == "proc"]
    fcases = sorted([c for c in xcases if c["kind"] == "fresh"], key=lambda c: (c["dform"], c["nis"], c["ann"], json.dumps(c, sort_keys=True)))
    if len(xcases) != mx.distinct - 3 or not pcases or not fcases:
        machinery_failure(PID, f"MC_HeapExt emitted {len(xcases)} cases for {mx.distinct} states")
    rep.extra["model_proc_cases"] = len(pcases)
    rep.extra["model_proc_cases_raising"] = sum(1 for c in pcases if not c["ok"])
    rep.extra["model_proc_cases_entry_differs_from_home"] = sum(1 for c in pcases if c["entry"] != c["home"])
    rep.extra["model_family_cases"] = len(fcases)
    rep.extra["model_family_cases_must_be_fresh"] = sum(1 for c in fcases if c["must"])
    cases = sorted([p for p in mc.printed if isinstance(p, dict) and "flagged" in p], key=lambda c: json.dumps(c, sort_keys=True))
    if len(cases) != mc.distinct or not cases:
        machinery_failure(PID, f"MC_Heap emitted {len(cases)} cases for {mc.distinct} states")
    rep.extra["model_cases"] = len(cases)
    rep.extra["model_flagged_cases"] = sum(1 for c in cases if c["flagged"])
    rep.extra["model_flagged_value_cases"] = sum(1 for c in cases if c["value"])
    table = {}
    for c in cases:  # non-vacuity of the invariants: which (operation, flavour, Alg verdict, Alg outcome) combinations the instance contains
        k = f"{c['op']}/{c['root']}/{c['pl']}/{c['fl']}/{'flagged' if c['flagged'] else 'cleared'}/{'returns' if c['ok'] else 'raises'}"
        table[k] = table.get(k, 0) + 1
    rep.extra["model_case_table"] = table

    # ---- REPLAY + TRACE executions
    batch = 60
    tasks = [{"cases": cases[i : i + batch]} for i in range(0, len(cases), batch)]
    n_hist = 50 if tier == "quick" else 500
    n_sub = 30 if tier == "quick" else 250
    htasks = [{"seed": f"{common.seed()}/{PID}/{i}", "maxlen": 12 if tier == "quick" else 40, "dcf": rnd.random() < 0.3} for i in range(n_hist)]
    stasks = [{"seed": f"{common.seed()}/{PID}/sub/{i}", "maxlen": 12 if tier == "quick" else 40} for i in range(n_sub)]
    try:
        replayed = [ev for evs in pool_map(replay_cases, tasks, procs) for ev in evs]
        histories = pool_map(random_history, htasks, procs) + pool_map(subonly_history, stasks, procs)
        ext = [ev for evs in pool_map(c08x.replay_proc, [{"cases": pcases[i : i + 12]} for i in range(0, len(pcases), 12)], procs) for ev in evs]
        ext += [ev for evs in pool_map(c08x.replay_fresh, [{"cases": fcases[i : i + 20]} for i in range(0, len(fcases), 20)], procs) for ev in evs]
    except Exception as ex:  # noqa: BLE001
        machinery_failure(PID, f"execution failed: {type(ex).__name__}: {ex}")
    if len(ext) != len(xcases):
        machinery_failure(PID, f"{len(ext)} executions for {len(xcases)} cases of MC_HeapExt")
    events = list(replayed)
    origin = [("case", i) for i in range(len(replayed))]
    for k, ev in enumerate(ext):
        events.append(ev)
        origin.append(("ext-case", k))
    for hi, evs in enumerate(histories):
        for k, ev in enumerate(evs):
            events.append(ev)
            origin.append(("history", hi, k))

    # ---- TLC validates every event
    tmp = common.scratch("c08-trace")
    rejects = []
    try:
        chunk = 5000 if tier == "quick" else 2500
        for ci in range(0, len(events), chunk):
            part = events[ci : ci + chunk]
            f = tmp / f"trace{ci}.json"
            f.write_text(json.dumps({"events": [{k: v for k, v in e.items() if not k.startswith("_")} for e in part]}))
            tv = tlc.run("Trace_Heap", "Trace_Heap", workers=workers, heap=heap, env={"TRACE_FILE": str(f)}, timeout=2400)
            rep.add_tlc(f"Trace_Heap[{ci // chunk}]", tv)
            if tv.errors or tv.rc != 0 or tv.distinct != len(part):
                machinery_failure(PID, f"trace validation failed (distinct={tv.distinct}, expected {len(part)}):\n" + tv.stdout[-3000:])
            for p in tv.printed:
                if isinstance(p, list) and p and p[0] == "R":
                    rejects.append((p[1] + ci, p[2], p[3] if len(p) > 3 else ""))
            f.unlink()
    finally:
        common.rm(tmp)

    # ---- evidence
    n_calls = sum(1 for e in events if e["kind"] == "call")
    n_proc = sum(1 for e in events if e["kind"] == "proc")
    n_freshd = sum(1 for e in events if e["kind"] == "freshd")
    n_fresh = len(events) - n_calls - n_proc - n_freshd
    rep.traces = len(events)
    rep.evaluations = len(events)
    rep.extra.update({"replayed_model_cases": len(replayed), "random_histories": n_hist, "subcommands_only_histories": n_sub, "history_events": len(events) - len(replayed) - len(ext),
                      "fresh_events": n_fresh, "path_directed_calls": n_proc, "path_directed_calls_that_raised": sum(1 for e in events if e["kind"] == "proc" and not e["ok"]),
                      "class_family_triple_instantiations": n_freshd, "class_families_sharing_the_live_default": sum(1 for e in events if e["kind"] == "freshd" and e["cal1"] == e["cal2"]),
                      "calls_that_raised": sum(1 for e in events if e["kind"] == "call" and not e["ok"])})
    for e in events:
        if e["kind"] == "call" and e["arg"] and e["keys"]:
            has_container = any(c["t"] in ("list", "dict", "tuple", "set") for c in e["hpre"].values())
            if has_container:
                rep.note_nontrivial(hashlib.sha1(json.dumps([e["op"], e["ok"], e["keys"], sorted((k, v["t"], json.dumps(v["c"])) for k, v in e["hpre"].items() if k != "DEFAULTS")],
                                                            sort_keys=True).encode()).hexdigest())
        elif e["kind"] == "fresh" and e["objs1"]:
            rep.note_nontrivial("fresh:" + str(len(e["objs1"])) + ":" + e["_note"])
        elif e["kind"] == "proc" and e["pc"]["entry"] != e["pc"]["home"]:
            rep.note_nontrivial("proc:" + json.dumps(e["pc"], sort_keys=True))
        elif e["kind"] == "freshd":
            rep.note_nontrivial("freshd:" + json.dumps(e["fam"], sort_keys=True))
    rep.rule = ("cases = snapshotted calls (deep snapshot of every argument, the declared defaults, os.environ, cwd, argparse.Namespace before and after) and double instantiations; "
                "non-trivial & distinct = distinct (operation, outcome, typed keys, abstract pre-heap of the arguments) with at least one nested container, plus distinct double instantiations that built objects")
    rep.exhaustive = False
    rep.explanation = (f"MC_Heap enumerated {len(cases)} (nesting, flavour, operation, argument kind) cases completely and all of them were executed on the real code; "
                       f"{n_hist} random histories on the rich parser and {n_sub} on the sub-commands-only parser added {len(events) - len(replayed) - len(ext)} snapshotted events ({n_fresh} double instantiations); MC_HeapExt enumerated {len(pcases)} path-directed calls (operation x outcome x directory the process is in x directory tree of the path) and {len(fcases)} class families with an instance default, all executed on the real code ({n_proc} + {n_freshd} events); TLC validated all {len(events)} events against Trace_Heap")
    flagged_seen = [e for e in replayed if e["_case"]["flagged"]]
    for e in (flagged_seen[:1] + replayed[:1] + [ev for evs in histories for ev in evs][:2] + [x for x in ext if x["kind"] == "proc" and x["pc"]["entry"] != x["pc"]["home"]][:1]
              + [x for x in ext if x["kind"] == "freshd" and x["fam"]["where"] == "other"][:1]):
        rep.sample({k: (v if not k.startswith("h") else {"cells": len(v)}) for k, v in e.items() if k not in ("_ret",)} if e["kind"] == "call" else e)

    # ---- classification
    by_ev = {}
    for idx, clause, detail in rejects:
        by_ev.setdefault(idx, []).append((clause, detail))
    n_as_alg = 0
    for idx, cl in sorted(by_ev.items()):
        e = events[idx - 1]
        org = origin[idx - 1]
        names = {c: d for c, d in cl}
        if e["kind"] == "proc":
            pc = e["pc"]
            case = {"call": pc, "path": e.get("_path"), "returned": e["ok"], "exception": e.get("_exc", ""), "seen_by_user_code": e["seen"], "process_state_before": e["pre"],
                    "process_state_after": e["post"], "model_case": e.get("_case"), "failed_clauses": cl, "origin": org}
            if "proc-ref" in names:
                rep.violation(f"proc:{pc['op']}:{'returned' if e['ok'] else 'raised'}:{names['proc-ref']}",
                              f"{pc['op']} (path of directory tree {pc['home']}, process in {pc['entry']}) leaves the process state changed: {names['proc-ref']}", case)
            else:
                rep.add_drift(f"the process state is restored but the call is not the Alg layer's ({names.get('proc-alg')})", case)
            continue
        if e["kind"] == "freshd":
            fam = e["fam"]
            case = {"family": fam, "owner": e.get("_owner"), "default_expression": e.get("_default"), "configuration": e.get("_cfg"), "failed_clauses": cl, "origin": org,
                    "identities": {k: e[k] for k in ("own1", "own1b", "own2", "cal1", "cal1b", "cal2", "old")}}
            if "freshd-ref" in names:
                rep.violation(f"fresh:{'owner' if any(d == 'owner' for c, d in cl if c == 'freshd-ref') else 'signature-default'}:{fam['owner']}/{fam['where']}/{'imports-name' if fam['nis'] else 'no-name'}/{fam['dform']}",
                              "instantiations share an object that a class_path/init_args spec (derived from a signature default) must build anew", case)
            else:
                rep.add_drift(f"freshness holds but the sharing pattern is not the Alg layer's ({names.get('freshd-alg')})", case)
            continue
        if e["kind"] == "fresh":
            rep.violation("fresh:shared-object", "two instantiate_classes calls on one configuration share an object (or reuse an existing one)",
                          {"event": e, "origin": org})
            continue
        case = {"op": e["op"], "returned": e["ok"], "exception": e.get("_exc", ""), "origin": org, "note": e.get("_note", ""), "model_case": e.get("_case"),
                "failed_clauses": cl, "arg": e["arg"], "keys": e["keys"], "alg_inputs": {k: e[k] for k in ("dkeys", "dactive", "dcf", "sdef", "pser", "cmpok")}, "roots_before": e["rpre"], "roots_after": e["rpost"],
                "heap_before": e["hpre"], "heap_after": e["hpost"]}
        if "ref-as-alg" in names:
            n_as_alg += 1
            route, kind, roots = names["ref-as-alg"].split(":", 2)
            rep.violation(f"inplace-adapt/as-alg:{route}:{e['op']}:{kind}", f"{e['op']} modifies what it is given ({kind} change via route {route}; changed roots: {roots})", case)
        elif "ref-other" in names:
            route, kind, roots = names["ref-other"].split(":", 2)
            rep.violation(f"frame:{e['op']}:{'returned' if e['ok'] else 'raised'}:{kind}:{roots}", f"{e['op']} modifies what it is given (changed roots: {roots}) in a way the Alg layer does not predict", case)
        elif "alg" in names:
            rep.add_drift(f"the frame holds but the observed heap is not the Alg layer's ({names['alg']})", case if rep.extra.get("alg_drift_count", 0) < 8 else {"op": e["op"], "origin": org})
    # every case the model flagged must have been observed as a frame violation (and vice versa) - reported through the clauses above;
    # here only the counts for the evidence file
    rep.extra["frame_violations_as_alg"] = n_as_alg
    return rep.finish()


if __name__ == "__main__":
    # run as `python -m harness.checks.c08`: hand over to the regularly imported module, so that the classes above have one
    # stable import path (harness.checks.c08.<name>) with source and globals that jsonargparse's resolvers can read
    import importlib

    args = sys.argv[1:]
    if args and args[0] == "--replay":
        print(open(args[1]).read())
        sys.exit(0)
    sys.exit(importlib.import_module(MODNAME).main(args))
