"""C19 -- path types accept exactly what the mode says; relative paths follow the config; cwd is restored.

  MC      tlc MC_Paths (spec/Paths.tla part a): every valid mode of <= 4 (thorough 5) flags x every consistent fact
          vector, and every short string over the flag alphabet; invariants: the check sequence of Path.__init__
          (Alg) decides what the docstring says (Ref) outside the named deviations, every failure is a PathError,
          laws of ModeSat; emits the (mode, facts) -> outcome table.
          tlc MC_PathsCwd (part b): the change_to_path_dir machine over every chain of <= 3 (4) config files in
          different directories with a failure at every level; invariants: relative references resolve in the
          directory of the file that holds them, cwd / current_path_dir restored on both exits; emits every behaviour.
  REPLAY  (a) a fixture directory (file / dir / fifo / socket x all 8 permission triples x writeable or read-only
          parent, symlinks, dangling symlinks, missing with / without parent, paths through a file, unsearchable
          directories, '~', '.', '..', absolute / relative / cwd= / os.PathLike, '-') is probed in forked children that
          drop to uid 65534; facts come from an independent os.stat / os.access oracle in the same child; the real
          Path / path_type is called for every mode and compared with the emitted table.
          (b) every emitted program is built as real config files (every directory holds a decoy with the same
          relative name) and parsed through parse_path / --cfg / default_config_files / a sub-config option; the
          resolved locations, os.getcwd(), current_path_dir and the os.chdir calls are observed.
          Round 4: MC_PathsCwd with Universe = "link" (cfg MC_PathsLink_*): config files that are symbolic links to files
          elsewhere and / or are named through <symlinked directory>/.., the value's file next to the link only / next to
          the target only / where the textual reading points / in all three; a seeded sample of the emitted programs is
          built and parsed; the directory of the ABSOLUTE path of every value says which file was read.
  TRACE   (code -> spec) all observations, plus seeded random programs beyond the bounds (deeper chains, more
          directories, odd relative spellings, dict / list / dataclass leaves), are validated by TLC against
          Trace_Paths (Ref clauses: verdict; Alg clauses: drift).
"""
from __future__ import annotations

import json
import multiprocessing as mp
import os
import pathlib
import random
import shutil
import socket
import stat
import sys
from dataclasses import dataclass
from typing import Dict, List, Optional

from ..lib import common, tlc
from ..lib.evidence import Report, machinery_failure

common.check_repo_import()
import yaml  # noqa: E402

from jsonargparse import ActionConfigFile, ActionParser, ArgumentParser  # noqa: E402
from jsonargparse._util import Path, PathError, current_path_dir  # noqa: E402
from jsonargparse.typing import Path_fr, path_type  # noqa: E402

PID = "C19"
# Which variant of spec/Paths.tla the tree under test is compared with: "code" = the pinned tree, "statguard" = after the
# repair proposed in tools/design.d/C19.md (os.stat under the F flag guarded) has been applied to /repo.
VARIANT = os.environ.get("VERIF_C19_VARIANT", "statguard")  # /repo carries the fix: commit a58026a (mode F no longer stats a missing path)
SFX = "" if VARIANT == "code" else "_" + VARIANT
NPROC = min(16, os.cpu_count() or 4)
NOBODY = 65534
CANON = "fdrwxcFDRWX"
_chdir = os.chdir


def canon_mode(flags: str) -> str:
    return "".join(c for c in CANON if c in flags) + ("c" if flags.count("c") == 2 else "")


# ================================================================ part (a): the fixture and the oracle
def build_fixture(base: str) -> list:
    """creates the fixture as root; returns the probes: (spelling, process cwd, cwd argument, as os.PathLike, note)"""
    os.chmod(base, 0o755)
    j = os.path.join
    for d, mode in (("W", 0o777), ("RO", 0o755), ("LOCK", 0o700), ("LOCKW", 0o702), ("home", 0o755)):
        os.mkdir(j(base, d))
    socks = []
    for parent in ("W", "RO"):
        for perm in range(8):
            with open(j(base, parent, f"f{perm}"), "w") as f:
                f.write("x")
            os.chmod(j(base, parent, f"f{perm}"), 0o600 | perm)
            os.mkdir(j(base, parent, f"d{perm}"))
            os.chmod(j(base, parent, f"d{perm}"), 0o700 | perm)
            os.mkfifo(j(base, parent, f"p{perm}"))
            os.chmod(j(base, parent, f"p{perm}"), 0o600 | perm)
            s = socket.socket(socket.AF_UNIX)
            s.bind(j(base, parent, f"s{perm}"))
            socks.append(s)
            os.chmod(j(base, parent, f"s{perm}"), 0o600 | perm)
        os.symlink("f6", j(base, parent, "ln_f6"))
        os.symlink("d7", j(base, parent, "ln_d7"))
        os.symlink("p6", j(base, parent, "ln_p6"))
        os.symlink("nothing", j(base, parent, "dangling"))
        os.symlink(j("nodir", "nothing"), j(base, parent, "dangling_deep"))
        os.symlink("f6/below", j(base, parent, "dangling_through_file"))
    # ".." right after a symlink to a directory ELSEWHERE and after a regular file: the kernel resolves the link first
    # (W/link/.. is <base>/real, not W) and refuses to step through a file; a textual normalisation gets both wrong
    os.makedirs(j(base, "real", "sub"))
    for name in ("target.txt", "sub/inner.txt", "d7"):
        with open(j(base, "real", name), "w") as f:
            f.write("x")
        os.chmod(j(base, "real", name), 0o644)
    for parent in ("W", "RO"):
        os.symlink("../real/sub", j(base, parent, "link"))
    for d in ("LOCK", "LOCKW"):
        with open(j(base, d, "in"), "w") as f:
            f.write("x")
        os.chmod(j(base, d, "in"), 0o666)
        os.mkdir(j(base, d, "sub"))
        os.chmod(j(base, d, "sub"), 0o777)
        with open(j(base, d, "sub", "in"), "w") as f:
            f.write("x")
        os.chmod(j(base, d, "sub", "in"), 0o666)
    with open(j(base, "home", "hf"), "w") as f:
        f.write("x")
    os.chmod(j(base, "home", "hf"), 0o644)
    for d, mode in (("W", 0o777), ("RO", 0o755), ("LOCK", 0o700), ("LOCKW", 0o702), ("home", 0o755)):
        os.chmod(j(base, d), mode)
    for s in socks:
        s.close()
    probes = []
    for parent in ("W", "RO"):
        for kind in "fdps":
            for perm in range(8):
                probes.append((f"{parent}/{kind}{perm}", base, None, False, f"{kind} perm o={perm} in {parent}"))
        for name in ("ln_f6", "ln_d7", "ln_p6", "dangling", "dangling_deep", "dangling_through_file", "missing", "nodir/missing", "nodir/a/b/missing",
                     "f6/below", "f6/be/low", "d7/new", "d5/new", "d0/new", "d3/x/new", "ln_d7/new"):
            probes.append((f"{parent}/{name}", base, None, False, f"{name} in {parent}"))
    for name in ("LOCK/in", "LOCK/new", "LOCK/sub/in", "LOCK/sub/new", "LOCK/no/new", "LOCKW/in", "LOCKW/new", "LOCKW/sub/in", "LOCKW/no/new", "LOCK", "LOCKW"):
        probes.append((name, base, None, False, "behind a directory that uid nobody cannot search"))
    for parent in ("W", "RO"):
        for name, note in (("link/../target.txt", "exists behind the link's parent, not beside the link"), ("link/../f6", "exists beside the link, not behind it"),
                           ("link/..", "the link's parent directory"), ("link/../sub/inner.txt", "back through the link's parent"), ("link/../d7", "a file behind, a directory beside"),
                           ("link/../missing", "missing on both sides"), ("link/../d7/new", "below a file behind, below a directory beside"),
                           ("f6/../f5", "dotdot after a regular file: not a directory for the kernel"), ("f6/../d7", "dotdot after a regular file"),
                           ("f6/../missing", "dotdot after a regular file, missing"), ("ln_d7/../f6", "dotdot after a link to a sibling directory: same place either way")):
            probes.append((f"{parent}/{name}", base, None, False, note))
    probes += [
        ("link/../target.txt", j(base, "W"), None, False, "dotdot after a symlinked directory, from inside"), ("link/../f6", j(base, "RO"), None, False, "dotdot after a symlinked directory, from inside"),
        ("link/..", j(base, "W"), None, False, "the link's parent, from inside"), ("link/../target.txt", base, j(base, "RO"), False, "dotdot after a symlinked directory, cwd= argument"),
        ("f6/../f5", j(base, "W"), None, False, "dotdot after a regular file, from inside"), ("W/link/../target.txt", base, None, True, "os.PathLike with dotdot after a symlinked directory"),
        (".", base, None, False, "dot"), ("..", j(base, "W"), None, False, "dotdot"), ("W", base, None, False, "dir"), ("W/", base, None, False, "dir with slash"),
        ("./W/f6", base, None, False, "./ spelling"), ("W/../RO/f4", base, None, False, ".. inside"), ("../RO/f5", j(base, "W"), None, False, "relative from another cwd"),
        ("f3", j(base, "RO"), None, False, "bare name"), ("f6", j(base, "RO"), j(base, "W"), False, "cwd= argument wins over the process cwd"),
        ("missing", j(base, "RO"), j(base, "W"), False, "cwd= argument, missing"), ("../W/d7", base, j(base, "RO"), False, "cwd= argument with .."),
        (j(base, "W", "f6"), j(base, "RO"), None, False, "absolute"), (j(base, "RO", "missing"), base, None, False, "absolute missing"),
        (j(base, "W", "f2"), base, j(base, "RO"), False, "absolute ignores cwd="), ("~", base, None, False, "home"), ("~/hf", base, None, False, "file in home"),
        ("~/missing", j(base, "W"), None, False, "missing in home"), ("-", base, None, False, "stdio"), ("-", j(base, "RO"), None, False, "stdio"),
        ("W/f6", base, None, True, "os.PathLike"), ("RO/missing", base, None, True, "os.PathLike missing"), ("/", base, None, False, "root"),
        ("/dev/null", base, None, False, "device"), ("/nonexistent-verif/x", base, None, False, "missing under /"),
    ]
    return probes


def oracle_abs(spelling: str, proc_cwd: str, cwd_arg, home: str) -> str:
    e = home + spelling[1:] if (spelling == "~" or spelling.startswith("~/")) else spelling
    return e if e.startswith("/") else os.path.join(cwd_arg or proc_cwd, e)


def _isdir(p: str) -> bool:
    try:
        return stat.S_ISDIR(os.stat(p).st_mode)
    except OSError:
        return False


def oracle_facts(abs_path: str, stdio: bool) -> dict:
    """independent of jsonargparse: os.stat / os.lstat / os.access only"""
    if stdio:
        return {"stdio": True, "st": "noent", "kind": "none", "r": False, "w": False, "x": False, "pdir": True, "pw": False, "nedir": True, "ndw": False}
    try:
        st = os.stat(abs_path)
        code = "ok"
        md = st.st_mode
        kind = "file" if stat.S_ISREG(md) else "dir" if stat.S_ISDIR(md) else "fifo" if stat.S_ISFIFO(md) else "other"
    except FileNotFoundError:
        code, kind = "noent", "none"
    except NotADirectoryError:
        code, kind = "notdir", "none"
    except PermissionError:
        code, kind = "acces", "none"
    parent = os.path.dirname(os.path.realpath(abs_path)) if abs_path != "/" else "/"
    pdir = _isdir(parent)
    a = parent
    while not os.path.lexists(a) and a != os.path.dirname(a):
        a = os.path.dirname(a)
    nedir = _isdir(a)
    b = parent
    while not _isdir(b) and b != os.path.dirname(b):
        b = os.path.dirname(b)
    return {"stdio": False, "st": code, "kind": kind, "r": os.access(abs_path, os.R_OK), "w": os.access(abs_path, os.W_OK), "x": os.access(abs_path, os.X_OK),
            "pdir": pdir, "pw": pdir and os.access(parent, os.W_OK), "nedir": nedir, "ndw": os.access(b, os.W_OK)}


def fact_str(F: dict) -> str:
    bits = "".join("1" if F[k] else "0" for k in ("r", "w", "x", "pdir", "pw", "nedir", "ndw", "stdio"))
    return f"{F['st']}:{F['kind']}:{bits}"


def probe_child(conn, base, probes, modes, strs, seed, drop):
    """forked child: warm up every lazy import, drop to uid nobody, probe."""
    try:
        home = os.path.join(base, "home")
        os.environ["HOME"] = home
        for md in ("fr", "dw", "fcc", "F"):
            for sp in ("W/f6", "W/missing", "-"):
                try:
                    path_type(md)(os.path.join(base, sp))
                except Exception:
                    pass
        json.dumps({}), pathlib.PurePath("x")
        if drop:
            os.setgroups([])
            os.setgid(NOBODY)
            os.setuid(NOBODY)
        uid = os.getuid()
        out = {"uid": uid, "facts": [], "obs": [], "strs": []}
        facts = []
        for sp, cwd, cwd_arg, _pl, _note in probes:
            _chdir(cwd)
            ab = oracle_abs(sp, cwd, cwd_arg, home)
            F = oracle_facts(ab, sp == "-")
            facts.append((ab, F))
            out["facts"].append(F)
        rnd = random.Random(f"{seed}/probe")
        for mi, flags in modes:
            for pi, (sp, cwd, cwd_arg, pl, _note) in enumerate(probes):
                _chdir(cwd)
                fl = list(flags)
                rnd.shuffle(fl)
                md = "".join(fl)
                given = pathlib.PurePosixPath(sp) if pl else sp
                kw = {"cwd": cwd_arg} if cwd_arg else {}
                via_type = (mi + pi) % 2 == 0
                try:
                    x = path_type(md)(given, **kw) if via_type else Path(given, mode=md, **kw)
                except PathError:
                    out["obs"].append((mi, pi, md, "patherror", "PathError", True, True))
                    continue
                except BaseException as ex:  # noqa: B036
                    out["obs"].append((mi, pi, md, "other", type(ex).__name__, True, True))
                    continue
                want = os.fspath(given)
                rel = x.relative == want and str(x) == want and x(absolute=False) == want and sorted(x.mode) == sorted(md)
                ab = facts[pi][0]
                # the location is the one the KERNEL resolves the spelling to: realpath / samefile, never a textual normalisation
                absok = sp == "-" or (os.path.isabs(x.absolute) and os.path.realpath(x.absolute) == os.path.realpath(ab)
                                      and (not os.path.exists(ab) or (os.path.exists(x.absolute) and os.path.samefile(x.absolute, ab)))
                                      and x() == x.absolute and os.fspath(x) == x.absolute)
                out["obs"].append((mi, pi, md, "accept", "", bool(rel), bool(absok)))
        for si, s in strs:
            raised = []
            for fn in ((Path._check_mode, path_type) if si % 5 == 0 else (Path._check_mode,)):
                try:
                    fn(s)
                    raised.append(False)
                except ValueError:
                    raised.append(True)
                except BaseException as ex:  # noqa: B036
                    raised.append(type(ex).__name__)
            out["strs"].append((si, raised))
        conn.send(out)
    except BaseException as ex:  # noqa: B036
        import traceback

        conn.send({"error": f"{type(ex).__name__}: {ex}\n{traceback.format_exc()[-2000:]}"})
    finally:
        conn.close()
        os._exit(0)


def run_probes(base, probes, modes, strs, seed):
    ctx = mp.get_context("fork")
    k = NPROC
    jobs = []
    for w in range(k):
        parent, child = ctx.Pipe(duplex=False)
        pr = ctx.Process(target=probe_child, args=(child, base, probes, modes[w::k], strs[w::k], seed, True))
        pr.start()
        child.close()
        jobs.append((pr, parent))
    outs = []
    for pr, parent in jobs:
        outs.append(parent.recv())
        pr.join()
    return outs


# ================================================================ part (b): chains of config files
@dataclass
class Leaf:
    f: Optional[Path_fr] = None
    k: int = 0


def chain_parser(n: int, leaf: str = "parser", wrap: bool = False, dcf=None) -> ArgumentParser:
    """parsers of the levels 1 .. n: --f a path value, --l the sub-config of the next level.  With a typed leaf the
    last level is not a parser but a file given to --t (a dict / list / dataclass of paths, enable_path) of level n-1.
    `wrap`: one more parser around it whose --l is level 1 (entry = "sub")."""
    nxt = None
    np = n if leaf == "parser" else n - 1
    for k in range(np, 0, -1):
        kw = {"default_config_files": dcf} if (k == 1 and not wrap and dcf) else {}
        p = ArgumentParser(exit_on_error=False, **kw)
        if k == 1 and not wrap:
            p.add_argument("--cfg", action=ActionConfigFile)
        p.add_argument("--f", type=Path_fr)
        if k == np and leaf != "parser":
            t = {"dict": Dict[str, Path_fr], "list": List[Path_fr], "dc": Leaf}[leaf]
            p.add_argument("--t", type=t, **({} if leaf == "dc" else {"enable_path": True}))
        if nxt is not None:
            p.add_argument("--l", action=ActionParser(parser=nxt))
        nxt = p
    if wrap:
        p0 = ArgumentParser(exit_on_error=False)
        p0.add_argument("--l", action=ActionParser(parser=nxt))
        return p0
    return nxt


def run_program(task) -> dict:
    idx, prog, base, seed, src = task
    rnd = random.Random(f"{seed}/{idx}/{json.dumps(prog, sort_keys=True)}")
    root = os.path.join(base, f"p{idx}")
    dirs, first, n = prog["dirs"], prog["first"], len(prog["dirs"])
    leaf = prog.get("leaf", "parser")
    tdirs, xdirs, place = prog.get("tdirs") or list(dirs), prog.get("xdirs") or list(dirs), prog.get("place") or ["all"] * n
    linky = tdirs != dirs or xdirs != dirs or any(pl != "all" for pl in place)
    obs = {"p": {**{k: prog[k] for k in ("dirs", "first", "start", "entry", "fail")}, "tdirs": tdirs, "xdirs": xdirs, "place": place}, "idx": idx, "src": src, "leaf": leaf}
    log = []
    try:
        names = sorted(set(dirs) | set(tdirs) | set(xdirs) | {prog["start"]})
        real = {d: os.path.join(root, d) for d in names}
        for d in names:
            os.makedirs(real[d], exist_ok=True)
        inv = {os.path.realpath(v): k for k, v in real.items()}
        for d in names:  # the same relative name everywhere: only the directory decides what a relative path means
            with open(os.path.join(real[d], "v.txt"), "w") as f:
                f.write(d)
        files = [os.path.join(real[dirs[k]], f"level{k + 1}_{rnd.randrange(1000)}.yaml") for k in range(n)]
        # round 4: the file of level k is WRITTEN next to its target (tdirs) and NAMED in dirs by a symbolic link; it is SPELLED
        # through <xdirs>/dl<k>/.. (dl<k> = a symbolic link to a subdirectory of dirs) when the textual reading differs
        written = [files[k] if tdirs[k] == dirs[k] else os.path.join(real[tdirs[k]], f"target{k + 1}_{rnd.randrange(1000)}.yaml") for k in range(n)]
        named = list(files)
        for k in range(n):
            if xdirs[k] != dirs[k]:
                os.makedirs(os.path.join(real[dirs[k]], f"sub{k + 1}"), exist_ok=True)
                dl = os.path.join(real[xdirs[k]], f"dl{k + 1}")
                if not os.path.lexists(dl):
                    os.symlink(os.path.join("..", dirs[k], f"sub{k + 1}") if rnd.random() < 0.5 else os.path.join(real[dirs[k]], f"sub{k + 1}"), dl)
                named[k] = os.path.join(dl, "..", os.path.basename(files[k]))
            if place[k] != "all":  # the value's file exists only where the program says, with different content in each place
                holds = {"named": [dirs[k]], "target": [tdirs[k]], "textual": [xdirs[k]], "three": [dirs[k], tdirs[k], xdirs[k]]}[place[k]]
                for d in set(holds):
                    with open(os.path.join(real[d], f"v{k + 1}.txt"), "w") as f:
                        f.write(d)
        fk, fl = prog["fail"]

        def spell(k, frm):
            target = named[k]
            # (relpath would collapse "dl/.." textually: the directory part is made relative, the rest is kept as spelled)
            if xdirs[k] != dirs[k]:
                rel = os.path.join(os.path.relpath(real[xdirs[k]], frm), f"dl{k + 1}", "..", os.path.basename(files[k]))
                rel = rel[2:] if rel.startswith("./") else rel
            else:
                rel = os.path.relpath(target, frm)
            r = rnd.random()
            if linky:  # the model assumes: a reference into the directory of the referring file is spelled without a directory part
                return "./" + rel if r < 0.3 else rel
            if r < 0.2:
                return "./" + rel
            if r < 0.3:
                return os.path.join("..", os.path.basename(frm), rel)
            if r < 0.4 and prog.get("abs_ok", True) and src == "random":
                return target
            return rel

        for k in range(n):
            vname = "v.txt" if place[k] == "all" else f"v{k + 1}.txt"
            value = "nothere.txt" if (fk == "badpath" and fl == k + 1) else rnd.choice([vname, "./" + vname])
            if k == n - 1 and leaf != "parser":  # the typed leaf file: nothing but the path value(s)
                with open(written[k], "w") as f:
                    f.write(yaml.safe_dump({"dict": {"a": value}, "list": [value], "dc": {"f": value, "k": 1}}[leaf]))
                continue
            items = [("f", value)]
            if k < n - 1:
                ref = spell(k + 1, real[dirs[k]])
                if fk == "missingfile" and fl == k + 2:
                    ref = os.path.join(os.path.dirname(ref), "no_such_config.yaml")
                items.append(("t" if (k == n - 2 and leaf != "parser") else "l", ref))
            if not first[k]:
                items.reverse()
            with open(written[k], "w") as f:
                f.write("".join(f"{a}: {json.dumps(b)}\n" for a, b in items))
                if fk == "badyaml" and fl == k + 1:
                    f.write("broken: [1, 2\n  - {\n")
        for k in range(n):
            if written[k] != files[k]:
                os.symlink(written[k] if rnd.random() < 0.5 else os.path.relpath(written[k], os.path.dirname(files[k])), files[k])
        start = real[prog["start"]]
        top = spell(0, start) if rnd.random() < 0.7 else named[0]
        _chdir(start)
        current_path_dir.set(None)  # pool workers are reused: nothing a previous case left behind may be blamed on this one

        def spy(path):
            log.append(inv.get(os.path.realpath(os.path.join(os.getcwd(), os.fspath(path))), "?" + str(path)))
            return _chdir(path)

        os.chdir = spy
        try:
            if prog["entry"] == "sub":
                how = "parse_args(['--l', top])"
                cfg = chain_parser(n, leaf, wrap=True).parse_args(["--l", top] if rnd.random() < 0.5 else [f"--l={top}"])
                cfg = cfg["l"]
            else:
                how = prog.get("how") or rnd.choice(["parse_path", "args_cfg", "dcf"])
                if how == "parse_path":
                    cfg = chain_parser(n, leaf).parse_path(top)
                elif how == "args_cfg":
                    cfg = chain_parser(n, leaf).parse_args([f"--cfg={top}"] if rnd.random() < 0.5 else ["--cfg", top])
                else:
                    cfg = chain_parser(n, leaf, dcf=[named[0]]).parse_args([])
            obs["out"], obs["exc"] = "ok", ""
        except BaseException as ex:  # noqa: B036
            cfg = None
            obs["out"], obs["exc"] = "raise", type(ex).__name__
        finally:
            os.chdir = _chdir
        obs["how"] = how
        obs["top"] = os.path.relpath(top, root) if os.path.isabs(top) else top
        obs["cwd_ok"] = os.getcwd() == start
        obs["cpd_ok"] = current_path_dir.get() is None
        obs["chdirs"] = log
        res = []
        if cfg is not None:
            cur = cfg
            for k in range(n):
                if cur is None:
                    break
                if k == n - 1 and leaf != "parser":
                    v = cur["a"] if leaf == "dict" else cur[0] if leaf == "list" else cur["f"]
                else:
                    v = cur.get("f")
                if isinstance(v, Path):
                    res.append([k + 1, inv.get(os.path.realpath(os.path.dirname(v.absolute)), "?" + v.absolute)])
                if k < n - 1:
                    cur = cur.get("t" if (k == n - 2 and leaf != "parser") else "l")
        obs["resolved"] = res
    except BaseException as ex:  # noqa: B036
        import traceback

        obs["setup_error"] = f"{type(ex).__name__}: {ex}\n{traceback.format_exc()[-1500:]}"
    finally:
        os.chdir = _chdir
        _chdir("/")
        shutil.rmtree(root, ignore_errors=True)
    return obs


def random_program(rnd: random.Random) -> dict:
    n = rnd.randint(2, 6)
    pool = ["A", "B", "C", "D", "E", "P"]
    leaf = rnd.choice(["parser", "parser", "dict", "list", "dc"])
    # (a bad value inside a typed leaf makes _typehints.py:591-596 try again: the same Ref, another chdir sequence)
    fails = [["none", 0]] * 3 + [["badpath", k] for k in range(1, n + (0 if leaf != "parser" else 1))] + [["missingfile", k] for k in range(2, n + (0 if leaf != "parser" else 1))] + [["badyaml", k] for k in range(1, n + (0 if leaf != "parser" else 1))]
    prog = {"dirs": [rnd.choice(pool) for _ in range(n)], "first": [rnd.random() < 0.5 for _ in range(n)], "start": rnd.choice(pool),
            "entry": rnd.choice(["file", "file", "sub"]), "fail": rnd.choice(fails), "leaf": leaf}
    if rnd.random() < 0.5:  # round 4: symbolic links to files elsewhere, files named through <symlinked directory>/.., values that exist in some places only
        prog["tdirs"] = [rnd.choice(pool) if rnd.random() < 0.5 else d for d in prog["dirs"]]
        prog["xdirs"] = [rnd.choice(pool) if rnd.random() < 0.25 else d for d in prog["dirs"]]
        prog["place"] = [rnd.choice(["all", "named", "named", "target", "textual", "three"]) for _ in range(n)]
        if leaf != "parser":  # (a value that is not found inside a typed leaf makes _typehints.py:591-596 try again: not modelled)
            prog["place"][-1] = rnd.choice(["all", "three"])
    return prog


# ================================================================ main
def main(argv):
    tier = "thorough" if (argv and argv[0] == "thorough") else "quick"
    rep = Report(PID, tier)
    _merge_own_findings(rep)
    workers = int(os.environ.get("VERIF_TLC_WORKERS", "16"))
    heap = os.environ.get("VERIF_TLC_HEAP", "8g")
    seed = common.seed()
    rnd = common.rng(PID)
    rep.assumptions = [
        "the facts of a path (stat result, kind, access bits, parent / ancestor directory facts) come from an os.stat / os.lstat / os.access oracle written for the harness; os.access as uid nobody is the meaning of readable / writeable / executable",
        "Ref reads the docstring literally: 'c' = parent directory exists and is writeable, 'cc' = the nearest existing ancestor is a writeable directory; file-like = regular file or fifo (the code's symmetric rule); an existing fifo under 'fc' is undocumented (either outcome allowed)",
        "url / fsspec flags (u, s) are outside the model (valid in the mode language part only)",
        "the directories of the config files are siblings (a reference ../X/file means the same from each of them); symbolic links to links, link loops and a symlinked process cwd are not modelled",
        "failures are planted as a path value that points to nothing or a nested config file that does not exist; the observable on a failing parse is os.getcwd(), current_path_dir and the os.chdir sequence",
        "the probes need root to drop to uid 65534; trailing-slash spellings of non-directories are not probed",
    ]
    if os.getuid() != 0:
        machinery_failure(PID, "must run as root to drop to uid nobody")
    if not issubclass(PathError, TypeError):
        rep.violation("patherror-not-typeerror", "PathError is not a TypeError", {})

    # ---- MC, part (b) first: its programs are replayed in a forked pool while TLC works on part (a)
    t = common.Timer()
    phase = {}
    mcc = tlc.run("MC_PathsCwd", f"MC_PathsCwd_{tier}", workers=workers, heap=heap, timeout=1500)
    rep.add_tlc(f"MC_PathsCwd_{tier}", mcc)
    san = tlc.run("MC_PathsCwd", "MC_PathsCwd_nofinally", workers=1, heap=heap, timeout=600)
    rep.add_tlc("MC_PathsCwd_nofinally", san)
    if san.violated != ["InvRestored"]:
        machinery_failure(PID, f"sanity: the model without the finally must violate InvRestored, got {san.violated} {san.errors[:2]}")
    programs = sorted((p for p in mcc.printed if isinstance(p, dict) and "p" in p), key=lambda p: json.dumps(p["p"], sort_keys=True))
    if not mcc.violated and (not programs or mcc.rc != 0 or mcc.errors):
        machinery_failure(PID, "TLC failed on MC_PathsCwd:\n" + mcc.stdout[-3000:])
    # round 4: config files that are symbolic links / named through a symlinked directory (same module, universe "link")
    mcl = tlc.run("MC_PathsCwd", f"MC_PathsLink_{tier}", workers=workers, heap=heap, timeout=1500)
    rep.add_tlc(f"MC_PathsLink_{tier}", mcl)
    linkprogs = sorted((p for p in mcl.printed if isinstance(p, dict) and "p" in p), key=lambda p: json.dumps(p["p"], sort_keys=True))
    if mcl.violated:
        rep.violation("model:MC_PathsLink:" + ",".join(mcl.violated), f"TLC: {mcl.violated} violated in the bounded model MC_PathsLink", {"tlc_errors": mcl.errors, "counterexample": mcl.cex[:4000]})
    elif not linkprogs or mcl.rc != 0 or mcl.errors:
        machinery_failure(PID, "TLC failed on MC_PathsLink:\n" + mcl.stdout[-3000:])
    san2 = tlc.run("MC_PathsCwd", "MC_PathsLink_realpath", workers=1, heap=heap, timeout=600)
    rep.add_tlc("MC_PathsLink_realpath", san2)
    if san2.violated != ["InvResolves"]:
        machinery_failure(PID, f"sanity: the model that enters the directory of the link's target must violate InvResolves, got {san2.violated} {san2.errors[:2]}")
    if tier == "thorough":  # non-vacuity: how often TLC took each phase of the cwd machine (-coverage, on the quick instance)
        cov = tlc.run("MC_PathsCwd", "MC_PathsCwd_quick", workers=workers, heap=heap, timeout=900, coverage=True)
        rep.add_tlc("MC_PathsCwd_quick(coverage)", cov)
        rep.extra["tlc_coverage"] = {k: v for k, v in cov.coverage.items() if k.startswith("A_") or k == "Init"}
    phase["mc_cwd"] = t.s()

    base = str(common.scratch("c19"))
    pool = None
    try:
        n_random = 800 if tier == "quick" else 12000
        if tier == "thorough" and len(programs) > 30000:
            keep = [p for p in programs if len(p["p"]["dirs"]) <= 3] + rnd.sample([p for p in programs if len(p["p"]["dirs"]) > 3], 20000)
            programs_r = sorted(keep, key=lambda p: json.dumps(p["p"], sort_keys=True))
        else:
            programs_r = programs
        n_link = 1500 if tier == "quick" else 20000
        linkprogs_r = linkprogs if len(linkprogs) <= n_link else sorted(rnd.sample(linkprogs, n_link), key=lambda p: json.dumps(p["p"], sort_keys=True))
        programs_r = programs_r + linkprogs_r
        tasks = [(i, p["p"], base, seed, "replay") for i, p in enumerate(programs_r)]
        tasks += [(len(programs_r) + j, random_program(rnd), base, seed, "random") for j in range(n_random)]
        run_program((10**9, {"dirs": ["A", "B"], "first": [True, False], "start": "P", "entry": "file", "fail": ["none", 0]}, base, seed, "warmup"))
        pool = mp.get_context("fork").Pool(max(2, NPROC - 4))
        pending = pool.map_async(run_program, tasks, chunksize=32)

        mc = tlc.run("MC_Paths", f"MC_Paths_{tier}{SFX}", workers=workers, heap=heap, timeout=1500)
        rep.add_tlc(f"MC_Paths_{tier}{SFX}", mc)
        for name, r in (("MC_Paths", mc), ("MC_PathsCwd", mcc)):
            if r.errors or r.rc != 0:
                if r.violated:
                    rep.violation(f"model:{name}:" + ",".join(r.violated), f"TLC: {r.violated} violated in the bounded model {name}", {"tlc_errors": r.errors, "counterexample": r.cex[:4000]})
                else:
                    machinery_failure(PID, f"TLC failed on {name}:\n" + r.stdout[-3000:])
        table = {(p["m"], p["f"]): p for p in mc.printed if isinstance(p, dict) and "m" in p}
        strtab = sorted((p for p in mc.printed if isinstance(p, dict) and "s" in p), key=lambda p: p["s"])
        # states of MC_Paths = the root, one per mode, one per first character, and the cases themselves
        n_inner = 1 + len({m for m, _ in table}) + len({p["s"][0] for p in strtab if p["s"]})
        if not mc.violated and len(table) + len(strtab) + n_inner != mc.distinct:
            machinery_failure(PID, f"MC_Paths emitted {len(table)}+{len(strtab)} cases for {mc.distinct} states ({n_inner} of them inner)")
        devs = {}
        for p in table.values():
            devs[p["d"]] = devs.get(p["d"], 0) + 1
        rep.extra["model_mode_cases"] = len(table)
        rep.extra["model_deviation_classes"] = devs
        rep.extra["model_programs"] = len(programs)
        rep.extra["model_link_programs"] = len(linkprogs)
        rep.extra["model_link_programs_replayed"] = len(linkprogs_r)
        rep.extra["model_link_programs_with_deviation"] = sum(1 for p in linkprogs if p["p"]["dirs"] != p["p"]["xdirs"])
        rep.extra["alg_variant"] = VARIANT
        modes_all = sorted({m for m, _ in table})
        modes = list(enumerate(modes_all))
        strs = [(i, p["s"]) for i, p in enumerate(strtab)]
        phase["mc_paths"] = t.s()
        os.chmod(base, 0o755)  # uid nobody must be able to reach the fixture
        fix = os.path.join(base, "fx")
        os.mkdir(fix)
        probes = build_fixture(fix)
        outs = run_probes(fix, probes, modes, strs, seed)
        phase["probes"] = t.s()
        cobs = pending.get(timeout=3000)
        pool.close()
        phase["programs"] = t.s()
        errs = [o["error"] for o in outs if "error" in o]
        if errs:
            machinery_failure(PID, "probe child failed: " + errs[0])
        if any(o["uid"] != NOBODY for o in outs):
            machinery_failure(PID, "a probe child did not run as uid nobody")
        bad = [o for o in cobs if "setup_error" in o]
        if bad:
            machinery_failure(PID, f"{len(bad)} programs could not be set up, e.g. {bad[0]['p']}: {bad[0]['setup_error']}")
        facts = outs[0]["facts"]
        if any(o["facts"] != facts for o in outs):
            machinery_failure(PID, "the oracle's facts differ between probe children")
        # ---- part (a): distinct (mode, facts, outcome) observations for TLC, examples kept for the report
        mobs, mkey, examples = [], {}, {}
        n_calls = 0
        for o in outs:
            for mi, pi, md, out, exc, rel, ab in o["obs"]:
                n_calls += 1
                key = (canon_mode(md), fact_str(facts[pi]), out, exc, rel, ab)
                if key not in mkey:
                    mkey[key] = len(mobs)
                    mobs.append({"mode": list(md), "F": facts[pi], "out": out, "rel": rel, "abs": ab})
                    examples[len(mobs) - 1] = {"spelling": probes[pi][0], "process_cwd": os.path.relpath(probes[pi][1], fix), "cwd_arg": probes[pi][2] and os.path.relpath(probes[pi][2], fix),
                                               "pathlike": probes[pi][3], "what": probes[pi][4], "mode": md, "facts": facts[pi], "observed": out, "exception": exc,
                                               "python": f"Path({probes[pi][0]!r}, mode={md!r}{', cwd=...' if probes[pi][2] else ''})  # as uid nobody, cwd <fixture>/{os.path.relpath(probes[pi][1], fix)}"}
        sobs, n_str = [], 0
        for o in outs:
            for si, raised in o["strs"]:
                n_str += 1
                if any(r not in (True, False) for r in raised) or len(set(raised)) != 1:
                    rep.violation(f"mode-language:{strtab[si]['s']}", f"_check_mode / path_type disagree or raise something else than ValueError on mode {strtab[si]['s']!r}: {raised}", {"mode": strtab[si]["s"], "raised": raised})
                    continue
                sobs.append({"s": list(strtab[si]["s"]), "raised": raised[0], "si": si})
        # ---- TLC validates
        f = os.path.join(base, "trace.json")
        with open(f, "w") as fh:
            json.dump({"modes": mobs, "strs": [{"s": o["s"], "raised": o["raised"]} for o in sobs],
                       "cwds": [{k: o[k] for k in ("p", "out", "cwd_ok", "cpd_ok", "resolved", "chdirs")} for o in cobs]}, fh)
        tr = tlc.run("Trace_Paths", "Trace_Paths" + SFX, workers=workers, heap=heap, timeout=1500, env={"TRACE_FILE": f})
        rep.add_tlc("Trace_Paths" + SFX, tr)
        phase["trace"] = t.s()
        rep.extra["phase_end_s"] = phase
        if tr.errors or tr.distinct != len(mobs) + len(sobs) + len(cobs):
            machinery_failure(PID, f"trace validation failed (distinct={tr.distinct}, expected {len(mobs) + len(sobs) + len(cobs)}):\n" + tr.stdout[-3000:])
    finally:
        if pool is not None:
            pool.terminate()
        common.rm(base)
    rejects = {}
    for p in tr.printed:
        if isinstance(p, list) and len(p) == 4 and p[0] == "R":
            rejects.setdefault((p[1], p[2] - 1), []).append(p[3])

    # ---- spec -> code cross-check: the emitted table against the observations, consistent with Trace_Paths
    n_agree = n_missing = 0
    for (cm, fs, out, exc, rel, ab), k in mkey.items():
        e = table.get((cm, fs))
        if e is None:
            n_missing += 1
            continue
        agree = {"accept": "accept", "patherror": "patherror", "oserror": "other"}[e["a"]] == out
        n_agree += agree
        if agree != ("alg" not in rejects.get(("mode", k), [])):
            machinery_failure(PID, f"MC_Paths and Trace_Paths disagree on mode {cm} facts {fs}: emitted {e}, observed {out}, clauses {rejects.get(('mode', k))}")
    rep.extra["mode_cases_agreeing_with_emitted_table"] = n_agree
    rep.extra["mode_cases_outside_emitted_table"] = n_missing
    if n_missing and tier == "quick":
        machinery_failure(PID, f"{n_missing} observed (mode, facts) pairs are not in the table MC_Paths emitted")
    n_prog_agree = sum(1 for i, p in enumerate(programs_r) if cobs[i]["chdirs"] == [e[2] for e in p["log"] if e[0] == "chdir"] and (cobs[i]["out"] == "raise") == p["exc"])
    rep.extra["programs_agreeing_with_emitted_behaviour"] = n_prog_agree

    rep.traces = n_calls + n_str + len(cobs)
    rep.evaluations = rep.traces
    rep.extra["path_calls"] = n_calls
    rep.extra["distinct_mode_fact_outcome"] = len(mobs)
    rep.extra["distinct_fact_vectors_in_fixture"] = len({fact_str(F) for F in facts})
    rep.extra["fixture_probes"] = len(probes)
    rep.extra["mode_strings_checked"] = n_str
    rep.extra["programs_run"] = len(cobs)
    for (cm, fs, out, *_), k in mkey.items():
        if out != "accept" or "c" in cm or any(c in cm for c in "FDRWX"):
            rep.note_nontrivial(f"m:{cm}:{fs}")
    for o in cobs:
        if len(o["p"]["dirs"]) >= 2:
            rep.note_nontrivial("p:" + json.dumps(o["p"], sort_keys=True) + o.get("how", ""))
    rep.rule = ("cases = (mode, probe path) calls of the real Path as uid nobody, mode strings, and parses of chains of config files; non-trivial & distinct = distinct "
                "(canonical mode, fact vector) pairs that are rejected or involve a creatable / negated flag, plus distinct programs of >= 2 nested config files")
    rep.exhaustive = tier == "quick" and len(linkprogs_r) == len(linkprogs)  # (round 4: the link programs are replayed as a seeded sample)
    rep.explanation = (f"MC_Paths enumerated every valid mode of its flag bound x every consistent fact vector ({len(table)} cases) and every short mode string ({len(strtab)}); "
                       f"MC_PathsCwd every chain program of its depth bound ({len(programs)}). Replayed on the real code: {n_calls} Path calls over {len(probes)} fixture probes "
                       f"({rep.extra['distinct_fact_vectors_in_fixture']} distinct fact vectors) x {len(modes)} modes as uid nobody, {n_str} mode strings, {len(programs_r)} model programs and {n_random} random programs; "
                       f"MC_PathsLink every chain of symlinked / dotdot-named config files of its bound ({len(linkprogs)}, of which a seeded sample of {len(linkprogs_r)} was replayed, included in the model programs above); "
                       "all observations validated by TLC against Trace_Paths. Exhaustive = the bounded model universes were enumerated and replayed completely (quick); the fixture realises a subset of the fact vectors.")
    for k in list(examples)[:1] + [k for k in examples if rejects.get(("mode", k))][:2]:
        rep.sample({**examples[k], "tlc_clauses_failed": rejects.get(("mode", k), [])})
    for o in [o for o in cobs if o["out"] == "ok" and len(o["p"]["dirs"]) == 3][:1] + [o for o in cobs if o["out"] == "raise" and len(o["p"]["dirs"]) >= 3][:1]:
        rep.sample({"program": o["p"], "entry": o.get("how"), "top": o.get("top"), "observed": {k: o[k] for k in ("out", "exc", "cwd_ok", "cpd_ok", "resolved", "chdirs")}})

    # ---- classification
    for (kind, k), clauses in sorted(rejects.items()):
        ref = [c for c in clauses if c.startswith("ref-")]
        if kind == "mode":
            ex = examples[k]
            case = {**ex, "failed_clauses": clauses}
            if "inconsistent-facts" in clauses:
                machinery_failure(PID, f"the oracle produced a fact vector the specification calls inconsistent: {case}")
            if not ref:
                rep.add_drift("real Path agrees with Ref but not with the Alg transcription", case)
                continue
            cm = canon_mode(ex["mode"])
            for c in ref:
                if c == "ref-as:stat-partial":
                    rep.violation(f"stat-partial:{ex['exception']}", f"not-file flag F on a path that cannot be stat'ed: {ex['exception']} escapes instead of PathError / acceptance", case)
                elif c == "ref-as:cc-through-file":
                    rep.violation("cc-through-file", "mode with 'cc' accepts a path below a regular file as creatable", case)
                else:
                    rep.violation(f"{c}:{cm}:{fact_str(ex['facts'])}:{ex['observed']}:{ex['exception']}", f"Path({ex['spelling']!r}, mode={ex['mode']!r}) -> {ex['observed']} {ex['exception']}: {c}", case)
        elif kind == "str":
            o = sobs[k]
            s = "".join(o["s"])
            if ref:
                rep.violation(f"mode-language:{s}", f"mode string {s!r}: ValueError raised = {o['raised']}, the documented language says otherwise", {"mode": s, "raised": o["raised"], "failed_clauses": clauses})
            else:
                rep.add_drift("mode language: real _check_mode agrees with Ref but not with the Alg transcription", {"mode": s})
        else:
            o = cobs[k]
            case = {"program": o["p"], "entry": o.get("how"), "top": o.get("top"), "outcome": o["out"], "exception": o["exc"], "cwd_restored": o["cwd_ok"], "current_path_dir_restored": o["cpd_ok"],
                    "resolved": o["resolved"], "chdirs": o["chdirs"], "failed_clauses": clauses, "source": o["src"], "leaf": o.get("leaf")}
            if "model" in clauses:
                machinery_failure(PID, f"the cwd machine itself breaks its Ref on a recorded program: {case}")
            if not ref:
                rep.add_drift("real parse agrees with Ref but not with the Alg transcription (" + ",".join(clauses) + ")", case)
                continue
            depth = len(o["p"]["dirs"])
            for c in sorted(set(ref)):
                if c == "ref-as:dotdot-textual":
                    rep.violation("cfgdir-dotdot-textual", "a config file named through <symbolic link to a directory elsewhere>/.. : relative paths inside it are resolved against the textually "
                                  "normalised directory (os.path.abspath, _util.py:304), not against the directory that holds the file", case)
                    continue
                rep.violation(f"{c}:{o.get('how')}:{o['p']['fail'][0]}@{o['p']['fail'][1]}of{depth}", f"chain of {depth} config files via {o.get('how')}: {c}", case)
    return rep.finish()


def _merge_own_findings(rep) -> None:
    """known findings come from /verif/known_findings.json only (Report loads it)."""
    return None


if __name__ == "__main__":
    args = sys.argv[1:]
    if args and args[0] == "--replay":
        print(open(args[1]).read())
        sys.exit(0)
    sys.exit(main(args))
