"""C18 -- save never destroys data: all-or-nothing on failure, no silent overwrite, the saved path re-parses.

  MC      tlc MC_Save (spec/Save.tla): every scenario of the bounded universe (single/multi-file x overwrite x
          sub-file layouts incl. name collisions x pre-existing directory contents x invalid / unserialisable
          value in every component x environment fault at every open/write) is run through the Alg machine
          (one action per step of _core.py:856-951); TLC checks NoSilentOverwrite in every state, that
          AllOrNothing / SavedReparses fail ONLY in the named deviations, and emits every behaviour.
          Further TLC runs: the pure AllOrNothing / SavedReparses invariants must produce the known
          counterexamples; (thorough) the proposed repairs (Variant = dumpfirst / twophase) are model-checked too.
  REPLAY  (spec -> code) every emitted scenario is made real in a scratch directory (real invalid value under a
          typed key, real unserialisable object under Any, OSError raised by a wrapped builtins.open / write at
          the n-th call), save() is called, the wrapped open records the order of file-system effects with a
          directory snapshot (names, sizes, content hashes -> content classes) at each of them.
  TRACE   (code -> spec) seeded random scenarios beyond TLC's bounds (up to 6 sub-files, a nested sub-file,
          several simultaneous faults, all formats) are recorded the same way.
  Every observation is validated by TLC against Trace_Save (Ref clauses: verdict; Alg clauses: drift).

  Round 4 (extension; everything below is decided by TLC in the same way):
  * scenario fields skipval (save(skip_validation=True)), edited (a component changed after loading), sub-file kind "orig"
    (ActionJsonnet: __path__ + __orig__) and an ActionJsonSchema sub-file, scheme = how the target is spelled: plain path /
    file:///abs (a local file: local branch, overwrite check) / local://abs (fsspec branch of save(), _core.py:892-904, modelled
    step by step: probe-open, multifile refusal, open, validate, serialise, write) / memory://... (fsspec's in-memory file system);
    MC_Save gets the sub-universes InitSkipval / InitOrig / InitFsspec / InitFileUrl / InitMemory (CONSTANT Ext).
  * HISTORIES (spec/SaveHist.tla, MC_SaveHist, Trace_SaveHist): the same configuration object is saved, edited (every value
    changes, some __path__ metas are dropped) and saved again into the same directory; TLC checks the laws of a history
    (NeverLost, FirstResultKept, StaleNotMistaken, FailedFirstIsInvisible, RetrySucceeds) on every history of a bounded
    universe and emits them; the harness replays them (both calls are also ordinary observations for Trace_Save) and
    Trace_SaveHist validates the recorded pairs.
"""
from __future__ import annotations

import builtins
import errno
import hashlib
import json
import multiprocessing as mp
import os
import pathlib
import random
import shutil
import sys

from ..lib import common, tlc
from ..lib.evidence import Report, machinery_failure

common.check_repo_import()
import yaml  # noqa: E402
from typing import Any, Dict  # noqa: E402

from jsonargparse import ActionConfigFile, ActionJsonnet, ActionJsonSchema, ActionParser, ArgumentParser, Namespace  # noqa: E402
from jsonargparse.typing import Path_fr  # noqa: E402
import jsonargparse._util as _jutil  # noqa: E402

PID = "C18"
# Which variant of spec/Save.tla the tree under test is compared with: "code" = the pinned tree (file opened before
# dump()), "dumpfirst" = after the repair proposed in tools/design.d/C18.md has been applied to /repo.
VARIANT = os.environ.get("VERIF_C18_VARIANT", "dumpfirst")  # /repo carries the fix: commit 46f9a2e (strings are built before the file is opened)
SFX = "" if VARIANT == "code" else "_" + VARIANT
NPROC = min(16, os.cpu_count() or 4)
S_KEYS = ["s1", "s2", "s3", "s4"]
MARK = {"s1": 11, "s2": 22, "s3": 33, "s4": 44, "s1.t": 7, "jn": 55, "js": 66}
X_KEYS = S_KEYS + ["jn", "js"]          # components whose document is {"x": MARK[key]}
EDIT = 1000                             # an edited component holds MARK[key] + EDIT
JN_TEXT = '// jsonnet source, kept verbatim by save()\n{"x": 50 + 5}\n'
X_SCHEMA = {"type": "object", "properties": {"x": {"type": "integer"}}}
SC_DEFAULTS = {"inplace": False, "skipval": False, "edited": "none", "scheme": "path"}
P_CONTENT = "content of the file behind a path value\n"
REAL = {"f1": "alpha.yaml", "f2": "beta.yaml", "f3": "gamma.json", "f4": "delta.yaml", "f5": "eps.json", "f6": "zeta.yaml", "f7": "eta.yaml"}
FMT_EXT = {"yaml": ".yaml", "json": ".json", "json_indented": ".json", "parser_mode": ".yaml"}
_real_open = builtins.open


class Unserialisable:
    """an object no dumper can represent (stored under a key typed Any)"""


# ---------------------------------------------------------------- gamma: scenario -> real parser, files, call
def make_parser(nested: bool = False, xkeys: bool = True) -> ArgumentParser:
    p = ArgumentParser(exit_on_error=False)
    p.add_argument("--cfg", action=ActionConfigFile)
    p.add_argument("--n", type=int, default=0)
    p.add_argument("--a", type=Any, default=None)
    p.add_argument("--d", type=Dict[str, Any], default={}, enable_path=True)
    p.add_argument("--p", type=Path_fr, default=None)
    if xkeys:   # (only when the scenario uses them: building the schema validators costs as much as the rest of the parser)
        p.add_argument("--jn", action=ActionJsonnet(schema=X_SCHEMA))        # a sub-file of this one carries __path__ AND __orig__
        p.add_argument("--js", action=ActionJsonSchema(schema=X_SCHEMA))
    for k in S_KEYS:
        sp = ArgumentParser(exit_on_error=False)
        sp.add_argument("--x", type=int, default=0)
        sp.add_argument("--a", type=Any, default=None)
        if nested and k == "s1":
            tp = ArgumentParser(exit_on_error=False)
            tp.add_argument("--y", type=int, default=0)
            tp.add_argument("--a", type=Any, default=None)
            sp.add_argument("--t", action=ActionParser(parser=tp))
        p.add_argument("--" + k, action=ActionParser(parser=sp))
    p.save_path_content.add("p")
    return p


def comp_doc(key: str, sc: dict, refs: dict) -> Any:
    """the document of one component as written into its input file (refs: key -> relative path of its file)"""
    if key == "d":
        return {"k": 3}
    if key == "s1.t":
        return {"y": MARK[key]}
    doc = {"x": MARK[key]}
    if key == "s1" and sc.get("nested"):
        doc["t"] = refs["s1.t"] if "s1.t" in refs else comp_doc("s1.t", sc, refs)
    return doc


def plain(x):
    """configuration -> comparable value: metas dropped, a path value = (base name, content of the file)"""
    if isinstance(x, Namespace):
        return {k: plain(v) for k, v in vars(x).items() if not k.startswith("__")}
    if isinstance(x, dict):
        return {k: plain(v) for k, v in x.items() if not (isinstance(k, str) and k.startswith("__"))}
    if isinstance(x, list):
        return [plain(v) for v in x]
    if isinstance(x, _jutil.Path):
        try:
            with _real_open(x.absolute) as f:
                content = f.read()
        except OSError as ex:
            content = f"<{type(ex).__name__}>"
        return ["path", os.path.basename(x.relative), content]
    return x


class OpenSpy:
    """builtins.open for the duration of one save(): counts the opens-for-writing below `root`, raises the injected
    OSError at the n-th open / n-th write, and logs open / close events with a snapshot of the output directory."""

    def __init__(self, root: str, fault, snap):
        self.root, self.fault, self.snap = root, tuple(fault), snap
        self.nopen = self.nwrite = 0
        self.fired = False
        self.events = []
        self.injected = OSError(errno.ENOSPC, "verif: injected fault")

    def __call__(self, file, mode="r", *a, **k):
        if isinstance(file, int) or not any(c in mode for c in "wax+"):
            return _real_open(file, mode, *a, **k)
        path = os.path.abspath(os.fspath(file))
        if not path.startswith(self.root + os.sep):
            return _real_open(file, mode, *a, **k)
        self.nopen += 1
        if self.fault == ("open", self.nopen):
            self.fired = True
            raise self.injected
        fh = _real_open(file, mode, *a, **k)
        self.events.append(["open", path, self.snap()])
        return _SpiedFile(fh, self, path)


class _SpiedFile:
    def __init__(self, fh, spy, path):
        self._fh, self._spy, self._path, self._closed = fh, spy, path, False

    def write(self, data):
        self._spy.nwrite += 1
        if self._spy.fault == ("write", self._spy.nwrite):
            self._spy.fired = True
            raise self._spy.injected
        return self._fh.write(data)

    def close(self):
        if not self._closed:
            self._closed = True
            self._fh.close()
            self._spy.events.append(["close", self._path, self._spy.snap()])

    def __enter__(self):
        return self

    def __exit__(self, *exc):
        self.close()
        return False

    def __getattr__(self, name):
        return getattr(self._fh, name)

    def __del__(self):
        try:
            self.close()
        except Exception:
            pass


def classify(path: str, old: bytes | None, edited: str = "none", bump: int = 0) -> str:
    """content class of one file of the output directory (alpha).  `edited` = the component whose value was changed after
    loading: a file holding its value from BEFORE the edit is class '<key>~' (Stale(key) in Save.tla)"""
    if not os.path.lexists(path):
        return "absent"
    if os.path.isdir(path):
        return "dir"
    with _real_open(path, "rb") as f:
        b = f.read()
    return classify_bytes(b, old, edited, bump)


def classify_mem(mpath: str, old: bytes | None, edited: str = "none", bump: int = 0) -> str:
    """the same for an object of fsspec's in-memory file system"""
    import fsspec

    memfs = fsspec.filesystem("memory")
    if not memfs.exists(mpath):
        return "absent"
    if memfs.isdir(mpath):
        return "dir"
    return classify_bytes(memfs.cat(mpath), old, edited, bump)


def classify_bytes(b: bytes, old: bytes | None, edited: str = "none", bump: int = 0) -> str:
    if len(b) == 0:
        return "empty"
    if old is not None and b == old:
        return "old"
    if b.decode("utf-8", "replace") == P_CONTENT:
        return "p"
    if b.decode("utf-8", "replace") == JN_TEXT:
        return "jn~" if edited == "jn" else "jn"
    try:
        doc = yaml.safe_load(b.decode("utf-8"))
    except Exception:
        return "other"
    if isinstance(doc, dict):
        if "n" in doc:
            return "main"
        if "k" in doc:
            return "d"
        if "y" in doc:
            return "s1.t"
        for k in X_KEYS:
            if doc.get("x") == MARK[k] + bump:
                return k + "~" if edited == k else k
            if doc.get("x") == "bad-" + k or (edited == k and doc.get("x") == MARK[k] + EDIT):
                return k
    return "other"


def tree(root: str, skip: set) -> dict:
    out = {}
    for d, dirs, files in os.walk(root):
        for n in files + [x for x in dirs if os.path.islink(os.path.join(d, x))]:
            p = os.path.join(d, n)
            if p in skip:
                continue
            try:
                with _real_open(p, "rb") as f:
                    out[os.path.relpath(p, root)] = hashlib.sha1(f.read()).hexdigest()
            except OSError:
                out[os.path.relpath(p, root)] = "?"
        for n in dirs:
            p = os.path.join(d, n)
            if p not in skip:
                out[os.path.relpath(p, root) + "/"] = "dir"
    return out


def run_case(task) -> dict:
    """make one scenario real, call save(), observe.  Runs in a forked pool worker."""
    idx, sc, base, seed, src = task
    rnd = random.Random(f"{seed}/{idx}/{json.dumps(sc, sort_keys=True)}")
    root = os.path.join(base, f"c{idx}")
    out_dir, cwd_dir, in_dir = (os.path.join(root, x) for x in ("out", "cwd", "in"))
    for d in (out_dir, cwd_dir, in_dir):
        os.makedirs(d)
    fmt = rnd.choice(list(FMT_EXT))
    main_real = "main" + FMT_EXT[fmt]
    real = dict(REAL, main=main_real)
    names = [f for f, _ in sc["pre"]]
    fault = tuple(sc["fault"])
    target = os.path.join(out_dir, "nodir", main_real) if fault[0] == "noparent" else os.path.join(out_dir, main_real)
    loc = {f: os.path.join(out_dir, real[f]) for f in names}
    loc["main"] = target
    mem = sc.get("scheme") == "memory"        # the main file is an object of fsspec's in-memory file system (per process: forked worker)
    mpath = f"/verif-c18-{idx}/{main_real}"
    sc = {**SC_DEFAULTS, **sc}
    inplace = bool(sc["inplace"])
    edited = sc["edited"]
    obs = {"sc": {k: sc[k] for k in ("multifile", "overwrite", "subs", "invalid", "unser", "fault", "pre", "inplace", "skipval", "edited", "scheme")}, "src": src, "idx": idx}
    home = os.getcwd()
    try:
        # ---- input files.  Where the file of a component lives and how the document that mentions it spells the
        # reference varies (what save() must write is always the bare name, next to the main file):
        #   sibling  <root>/src_<key>/<name>      referred to as ../src_<key>/<name>
        #   subdir   <holder dir>/parts_<key>/<name>  referred to as parts_<key>/<name>
        #   abs      <root>/src_<key>/<name>      referred to by its absolute path
        #   bare     <holder dir>/<name>          referred to as <name>   (only when the name is unique)
        # (saved in place: everything lives in the output directory itself, bare names)
        subs = {k: (n, kind) for k, n, kind in sc["subs"]}
        refs, where, style = {}, {}, {}
        uniq = {n for n in (v[0] for v in subs.values()) if sum(1 for v in subs.values() if v[0] == n) == 1}
        for k, (n, kind) in sorted(subs.items(), key=lambda kv: len(kv[0])):  # holders before what they hold
            if inplace:
                refs[k], where[k], style[k] = real[n], loc[n], "inplace"
                continue
            holder = k.rsplit(".", 1)[0] if "." in k else None
            hdir = os.path.dirname(where[holder]) if holder in where else in_dir
            st = rnd.choice(["sibling", "subdir", "abs"] + (["bare"] if (n in uniq and holder is None) else []))
            style[k] = st
            if st == "subdir":
                where[k] = os.path.join(hdir, "parts_" + k, real[n])
            elif st == "bare":
                where[k] = os.path.join(hdir, real[n])
            else:
                where[k] = os.path.join(root, "src_" + k, real[n])
            os.makedirs(os.path.dirname(where[k]), exist_ok=True)
            refs[k] = where[k] if st == "abs" else os.path.relpath(where[k], hdir)
        for k, (n, kind) in sorted(subs.items(), key=lambda kv: -len(kv[0])):
            path = where[k]
            with _real_open(path, "w") as f:
                if kind == "content":
                    f.write(P_CONTENT)
                elif kind == "orig":
                    f.write(JN_TEXT)
                elif real[n].endswith(".json") or rnd.random() < 0.3:
                    f.write(json.dumps(comp_doc(k, sc, refs)))
                else:
                    f.write(yaml.safe_dump(comp_doc(k, sc, refs)))
        doc = {"n": 5}
        for k in S_KEYS[: (4 if sc.get("wide") else 2)]:
            doc[k] = refs[k] if k in subs else comp_doc(k, sc, refs)
        doc["d"] = refs["d"] if "d" in subs else comp_doc("d", sc, refs)
        for k in ("p", "jn", "js"):
            if k in subs:
                doc[k] = refs[k]
        main_in = target if inplace else os.path.join(in_dir, "input.yaml")
        with _real_open(main_in, "w") as f:
            f.write(yaml.safe_dump(doc))
        # ---- the directory before the call
        old = {}
        for f, c in sc["pre"]:
            if mem and f == "main":
                import fsspec

                if c == "old":
                    old[f] = (f"# the user's only copy {rnd.getrandbits(64):x}\nprecious: [{rnd.randint(0, 999)}, data]\n" * rnd.randint(1, 3)).encode()
                    fsspec.filesystem("memory").pipe(mpath, old[f])
                elif c == "empty":
                    fsspec.filesystem("memory").pipe(mpath, b"")
                elif c != "absent":
                    raise ValueError("memory target: pre-existing " + c)
                continue
            if c == "old":
                old[f] = (f"# the user's only copy {rnd.getrandbits(64):x}\nprecious: [{rnd.randint(0, 999)}, data]\n" * rnd.randint(1, 3)).encode()
                with _real_open(loc[f], "wb") as fh:
                    fh.write(old[f])
            elif c == "empty":
                _real_open(loc[f], "wb").close()
            elif c == "dir":
                os.makedirs(loc[f])
        os.chdir(cwd_dir)
        xkeys = any(k in ("jn", "js") for k in subs)
        parser = make_parser(nested=bool(sc.get("nested")), xkeys=xkeys)
        if rnd.random() < 0.5:
            cfg = parser.parse_path(main_in, with_meta=True)
        else:
            cfg = parser.parse_args(["--cfg", os.path.relpath(main_in, cwd_dir)], with_meta=True)
        # a valid edit after loading: the configuration that has to be reproduced is the edited one (made before the invalid
        # value is planted, so that a component that is both edited and invalid IS invalid)
        if edited == "main":
            cfg["n"] = 6
        elif edited in ("jn", "js"):
            cfg[edited]["x"] = MARK[edited] + EDIT
        elif edited in S_KEYS:
            cfg[edited + ".x"] = MARK[edited] + EDIT
        elif edited != "none":
            raise ValueError(f"edited={edited!r} is not supported by the harness")
        def one_call(sc, obs, old, bump, final):
            """plant the call's invalid / unserialisable value, call save() under the spy, observe (fills obs).  `bump` = the
            generation of the values (a second call of a history saves changed values), `final` = the input directories may
            be moved away for the re-parse"""
            fault = tuple(sc["fault"])
            edited = sc["edited"]
            if sc["invalid"] == "main":
                cfg["n"] = "not-an-int"
            elif sc["invalid"] in ("jn", "js"):
                cfg[sc["invalid"]]["x"] = "bad-" + sc["invalid"]
            elif sc["invalid"] != "none":
                cfg[sc["invalid"] + (".y" if sc["invalid"] == "s1.t" else ".x")] = "bad-" + sc["invalid"]
            if sc["unser"] == "main":
                cfg["a"] = Unserialisable()
            elif sc["unser"] == "d":
                cfg["d"]["u"] = Unserialisable()
            elif sc["unser"] != "none":
                cfg[sc["unser"] + ".a"] = Unserialisable()
            expected = plain(cfg)
            expected.pop("cfg", None)

            def snap():
                return [[f, classify_mem(mpath, old.get(f), edited, bump) if (mem and f == "main") else classify(loc[f], old.get(f), edited, bump)] for f in names]

            skip = set(loc.values())
            before = tree(root, skip)
            obs["pre0"] = snap()
            spy = OpenSpy(root, fault, snap)
            how = {"format": "no-such-format" if fault[0] == "format" else fmt, "overwrite": sc["overwrite"], "multifile": sc["multifile"]}
            if sc["skipval"]:
                how["skip_validation"] = True
            # the target as a relative string, an absolute string, an os.PathLike, or a Path object made for another directory
            r = rnd.random()
            saved_home = os.environ.get("HOME")
            if sc["scheme"] == "fsspec":
                # a target spelled with a protocol fsspec knows (LocalFileSystem): the files are still those of the scratch directory
                tgt = "local://" + target
            elif mem:
                tgt = "memory:/" + mpath
            elif sc["scheme"] == "fileurl":
                # a URL spelling of a LOCAL file: Path strips the scheme (_util.py:513,550), everything else is as for a plain path
                tgt = "file://" + target
            elif r < 0.3:
                tgt = os.path.relpath(target, cwd_dir)
            elif r < 0.5:
                tgt = target
            elif r < 0.62:
                tgt = pathlib.Path(target)
            elif r < 0.78 and not (os.path.isdir(target) or fault[0] == "noparent"):
                # a spelling that only Path resolves: '~/name' with HOME pointing at the target directory
                os.environ["HOME"] = os.path.dirname(target)
                tgt = "~/" + os.path.basename(target)
            elif os.path.isdir(target) or fault[0] == "noparent":
                tgt = target
            else:
                tgt = _jutil.Path(os.path.basename(target), mode="fc", cwd=os.path.dirname(target))
            builtins.open = spy
            try:
                try:
                    parser.save(cfg, tgt, **how)
                    obs["out"], obs["exc"] = "ok", ""
                except BaseException as ex:  # noqa: B036 -- SystemExit included on purpose
                    obs["out"], obs["exc"] = "raise", type(ex).__name__
                    obs["exc_tb"] = _where(ex)
            finally:
                builtins.open = _real_open
                if saved_home is None:
                    os.environ.pop("HOME", None)
                else:
                    os.environ["HOME"] = saved_home
            obs["fired"] = spy.fired
            inv = {v: k for k, v in loc.items()}
            obs["events"] = [[e, inv.get(p, "?" + os.path.relpath(p, root)), s] for e, p, s in spy.events]
            obs["fs"] = snap()
            after = tree(root, skip)
            obs["extra"] = [[n, "absent" if n not in before else "old", "absent" if n not in after else "other"]
                            for n in sorted(set(before) | set(after)) if before.get(n) != after.get(n)]
            obs["cwd_same"] = os.getcwd() == cwd_dir
            obs["reparses"] = False
            obs["refs"] = []
            obs["layout"] = style
            if obs["out"] == "ok":
                # what the saved documents say where each component is to be found (read from the saved files themselves)
                obs["refs"] = _saved_refs(sc, loc, real, names)
                # the saved path must stand on its own: the directories the config was loaded from are moved away and the
                # process sits somewhere else before the saved path is parsed again
                if not inplace and final:
                    for d in sorted(os.listdir(root)):
                        if d == "in" or d.startswith("src_"):
                            os.rename(os.path.join(root, d), os.path.join(root, "gone_" + d))
                elsewhere = os.path.join(root, "elsewhere")
                os.makedirs(elsewhere, exist_ok=True)
                os.chdir(elsewhere)
                try:
                    if mem:
                        from jsonargparse import set_config_read_mode

                        set_config_read_mode(fsspec_enabled=True)
                    again = make_parser(nested=bool(sc.get("nested")), xkeys=xkeys).parse_path(tgt if mem else target, with_meta=False)
                    got = plain(again)
                    got.pop("cfg", None)
                    obs["reparses"] = got == expected
                    if not obs["reparses"]:
                        obs["reparse_diff"] = _diff(expected, got)
                except BaseException as ex:  # noqa: B036
                    obs["reparse_diff"] = f"{type(ex).__name__}: {str(ex)[:200]}"
                if not final:
                    os.chdir(cwd_dir)
            obs["python"] = (f"parser.save(cfg, {tgt if isinstance(tgt, str) else repr(tgt)!r}, format={how['format']!r}, overwrite={how['overwrite']}, multifile={how['multifile']}"
                             f"{', skip_validation=True' if sc['skipval'] else ''})"
                             f"  # cfg parsed from input.yaml referring to {sorted(refs.values())}, invalid={sc['invalid']}, unserialisable={sc['unser']}, edited after loading={edited}, fault={list(fault)}")
        one_call(sc, obs, old, 0, "then" not in sc)
        if "then" in sc:
            # ---- a history (SaveHist.tla): the SAME configuration object is edited -- every value changes (a new generation),
            # what was planted for the first call is taken out, some __path__ metas are dropped -- and saved again into the
            # same directory.  What the first call wrote is, for the second call, bytes that are already there ("old").
            sc2 = {**SC_DEFAULTS, **sc["then"], "scheme": sc["scheme"]}
            bump = 100
            try:
                metas = {k: ("__path__" in cfg[k]) for k in subs}
                if not all(metas.values()):
                    raise TypeError(f"save() took the __path__ meta out of the caller's configuration: {metas}")
                cfg["n"], cfg["a"] = 7, None
                for k in S_KEYS[: (4 if sc.get("wide") else 2)]:
                    cfg[k + ".x"], cfg[k + ".a"] = MARK[k] + bump, None
                cfg["d"]["k"] = 4
                cfg["d"].pop("u", None)
                keep2 = {k for k, _, _ in sc2["subs"]}
                for k in subs:
                    if k not in keep2:
                        if isinstance(cfg[k], dict):
                            cfg[k].pop("__path__", None)
                        else:
                            cfg.pop(k + ".__path__", None)
            except Exception as ex:
                # the first save() changed the CALLER's configuration object so that it cannot be edited as planned: that is
                # C08's subject, not C18's -- the history stops here (reported as drift, never as a verdict)
                obs["then_skipped"] = f"{type(ex).__name__}: {str(ex)[:200]}"
                return obs
            old2 = {}
            for f in names:
                if os.path.isfile(loc[f]) and os.path.getsize(loc[f]) > 0:
                    with _real_open(loc[f], "rb") as fh:
                        old2[f] = fh.read()
            obs2 = {"src": "hist2", "idx": -1}
            pre2 = [[f, classify(loc[f], old2.get(f), "none", bump)] for f in names]
            obs2["sc"] = {**{k: sc2[k] for k in ("multifile", "overwrite", "subs", "invalid", "unser", "fault", "inplace", "skipval", "edited", "scheme")}, "pre": pre2}
            obs2["model_pre"] = sc2["pre"]
            one_call(sc2, obs2, old2, bump, True)
            obs["then"] = obs2

    except BaseException as ex:  # noqa: B036 -- the set-up itself failed: machinery, not a verdict
        import traceback

        obs["setup_error"] = f"{type(ex).__name__}: {ex}\n{traceback.format_exc()[-1500:]}"
    finally:
        builtins.open = _real_open
        os.chdir(home)
        shutil.rmtree(root, ignore_errors=True)
        if mem:
            try:
                from jsonargparse import set_config_read_mode
                import fsspec

                set_config_read_mode(fsspec_enabled=False)
                fsspec.filesystem("memory").rm(os.path.dirname(mpath), recursive=True)
            except Exception:
                pass
    return obs


def _saved_refs(sc, loc, real, names) -> list:
    """[[key, abstract file name]] in the order of sc.subs: the value the saved document holds for `key`, mapped to the
    abstract name when it is the bare name of a file of the output directory, "?<value>" otherwise"""
    def load(path):
        try:
            with _real_open(path) as f:
                doc = yaml.safe_load(f.read())
            return doc if isinstance(doc, dict) else {}
        except Exception:
            return {}

    if not sc["multifile"]:
        return []
    by_real = {real[f]: f for f in names}
    subs = {k: n for k, n, _ in sc["subs"]}
    main = load(loc["main"])
    out = []
    for k, n, _ in sc["subs"]:
        if "." in k:
            holder, leaf = k.rsplit(".", 1)
            doc = load(loc[subs[holder]]) if holder in subs else (main.get(holder) if isinstance(main.get(holder), dict) else {})
        else:
            doc, leaf = main, k
        v = doc.get(leaf)
        out.append([k, by_real[v] if (isinstance(v, str) and v in by_real) else "?" + (v if isinstance(v, str) else type(v).__name__)])
    return out


def _where(ex) -> str:
    tb, names = ex.__traceback__, []
    while tb is not None:
        names.append(tb.tb_frame.f_code.co_name)
        tb = tb.tb_next
    return ">".join(names[-4:])


def _diff(a, b, path="") -> str:
    if isinstance(a, dict) and isinstance(b, dict):
        for k in sorted(set(a) | set(b), key=str):
            if a.get(k, "<absent>") != b.get(k, "<absent>"):
                return _diff(a.get(k, "<absent>"), b.get(k, "<absent>"), f"{path}.{k}" if path else str(k))
    return f"{path}: saved {a!r} re-parsed {b!r}"[:300]


# ---------------------------------------------------------------- random scenarios beyond the bounds of MC_Save
def random_scenario(rnd: random.Random, rnd4: random.Random, p_x: float = 0.25) -> dict:
    """rnd4 draws everything that round 4 added (so that the stream of the earlier rounds is not shifted)"""
    multifile = rnd.random() < 0.7
    nested = rnd.random() < 0.3
    inplace = rnd.random() < 0.15
    keys = [k for k in S_KEYS if rnd.random() < 0.6]
    leafs = [k for k in ("d", "p") if rnd.random() < 0.4 and (k != "p" or multifile)]
    leafs += [k for k in ("jn", "js") if rnd4.random() < p_x and not inplace]      # round 4: ActionJsonnet (__orig__) / ActionJsonSchema sub-files
    files = ["main"] + sorted(rnd.sample(list(REAL), len(REAL) if inplace else rnd.randint(2, 6)))
    pool = [f for f in files if f != "main"]
    subs = []

    def name():
        r = rnd.random()
        if inplace:
            return pool.pop(rnd.randrange(len(pool)))
        if subs and r < 0.12:
            return rnd.choice(subs)[1]
        if r < 0.16:
            return "main"
        return rnd.choice(pool)

    if nested and "s1" in keys and rnd.random() < 0.7:
        subs.append(["s1.t", name(), "cfg"])
    for k in leafs:
        subs.append([k, name(), "content" if k == "p" else "orig" if k == "jn" else "cfg"])
    for k in keys:
        subs.append([k, name(), "cfg"])
    holders = ["main"] + [k for k, _, kind in subs if kind == "cfg" and k != "js"]
    inline = [k for k in S_KEYS if k not in keys]
    sc = {
        "multifile": multifile, "overwrite": rnd.random() < 0.5, "subs": subs,
        "invalid": rnd.choice(["main"] + [k for k in holders if k not in ("main", "d")] + inline + [k for k in ("jn", "js") if k in leafs]) if rnd.random() < 0.25 else "none",
        "unser": rnd.choice(holders + inline) if rnd.random() < 0.3 else "none",
        "fault": ["none", 0], "nested": nested, "wide": True,
        "pre": [[f, rnd.choices(["absent", "old", "empty", "dir"], [55, 30, 10, 5])[0]] for f in files],
    }
    if inplace:
        at = {n: k for k, n, _ in subs}
        sc["inplace"] = True
        sc["pre"] = [[f, "main" if f == "main" else at.get(f, "absent")] for f in files]
    r = rnd.random()
    if r < 0.25:
        sc["fault"] = [rnd.choice(["open", "write"]), rnd.randint(1, 7)]
    elif r < 0.30:
        sc["fault"] = ["format", 0]
    elif r < 0.34 and not inplace:
        sc["fault"] = ["noparent", 0]
        sc["pre"] = [[f, "absent"] for f in files]
    # ---- round 4
    sc["skipval"] = rnd4.random() < 0.2
    sc["edited"] = "none"
    if not inplace and rnd4.random() < 0.35:
        sc["edited"] = rnd4.choice(["main"] + keys + [k for k in ("jn", "js") if k in leafs])
    sc["scheme"] = "path"
    r4 = rnd4.random()
    if not inplace and r4 < 0.12:
        sc["scheme"] = "fsspec"
        if sc["fault"][0] == "noparent" or sc["fault"][0] == "write" or (sc["fault"][0] == "open" and sc["fault"][1] > 2):
            sc["fault"] = ["none", 0]
    elif not inplace and r4 < 0.16:
        sc["scheme"] = "memory"
        if sc["fault"][0] != "format":
            sc["fault"] = ["none", 0]
        sc["pre"] = [[f, "absent" if (f == "main" and c == "dir") else c] for f, c in sc["pre"]]
    elif r4 < 0.30:
        sc["scheme"] = "fileurl"
    return sc


# ---------------------------------------------------------------- main
def tlc_checked(rep, module, cfg, **kw):
    import time
    t0 = time.time()
    r = tlc.run(module, cfg, **kw)
    rep.extra.setdefault("wall_s_per_step", {})[cfg + ("" if cfg not in rep.extra["wall_s_per_step"] else "#%d" % len(rep.extra["wall_s_per_step"]))] = round(time.time() - t0, 1)
    rep.add_tlc(cfg, r)
    return r


def main(argv):
    tier = "thorough" if (argv and argv[0] == "thorough") else "quick"
    rep = Report(PID, tier)
    _merge_own_findings(rep)
    workers = int(os.environ.get("VERIF_TLC_WORKERS", "16"))
    heap = os.environ.get("VERIF_TLC_HEAP", "8g")
    rep.assumptions = [
        "file contents are abstracted to classes (absent / dir / empty / the user's old bytes / the dump of a named component); the harness recognises a component's dump by a marker value, the old bytes by equality",
        "a refusal (overwrite=False and an existing target), an unknown format, a missing parent directory and an OSError are legitimate reasons for save() to fail; AllOrNothing is demanded only when an invalid or unserialisable value is the ONLY possible reason",
        "OSError faults are injected by wrapping builtins.open in the harness process (n-th open for writing / n-th write); a crash of the interpreter in the middle of a write is not modelled",
        "the byte-level dump and load (PyYAML / json) are trusted: 're-parses' compares the real re-parse with the real configuration",
        "fsspec targets are modelled for two file systems (local://, memory://); on memory:// the order of effects cannot be observed (no builtins.open), only the states before and after; URL targets (requests) and remote file systems are outside the model",
        "a configuration that is invalid and saved with skip_validation=True is not expected to re-parse; an unserialisable object is never placed inside a jsonnet / jsonschema value",
        "histories: between the two calls every value of the configuration is changed, so that what the first call wrote is recognised (byte equality) as pre-existing data of the second call; save_path_content files, jsonnet sub-files and fsspec targets are not part of the history universe",
    ]
    # ---- MC: the design-level results (the history instance of round 4 runs beside it)
    from concurrent.futures import ThreadPoolExecutor

    side = ThreadPoolExecutor(max_workers=1)
    mh_future = side.submit(tlc.run, "MC_SaveHist", f"MC_SaveHist_{tier}{SFX}", workers=min(workers, 4), heap=heap, timeout=900)
    mc = tlc_checked(rep, "MC_Save", f"MC_Save_{tier}{SFX}", workers=workers, heap=heap, timeout=1500)
    if mc.errors:
        if mc.violated:
            rep.violation("model:" + ",".join(mc.violated), f"TLC: {mc.violated} violated in the bounded model: the Alg layer breaks the property outside the named deviations",
                          {"tlc_errors": mc.errors, "counterexample": mc.cex[:4000]})
        else:
            machinery_failure(PID, "TLC failed on MC_Save:\n" + mc.stdout[-3000:])
    behaviours = [p for p in mc.printed if isinstance(p, dict) and "sc" in p]
    if not mc.violated and (not behaviours or mc.rc != 0):
        machinery_failure(PID, f"MC_Save emitted {len(behaviours)} behaviours (rc={mc.rc})")
    behaviours.sort(key=lambda b: json.dumps(b["sc"], sort_keys=True))
    devs = {}
    for b in behaviours:
        devs[b["dev"]] = devs.get(b["dev"], 0) + 1
    rep.extra["model_behaviours"] = len(behaviours)
    rep.extra["model_deviation_classes"] = devs
    # ---- REPLAY + TRACE: the real code works on the scenarios in a forked pool while TLC does the remaining model runs
    seed = common.seed()
    rnd = common.rng(PID)
    n_model = len(behaviours)
    if tier == "thorough" and n_model > 60000:
        # every success and every multi-file / collision / in-place deviation; seeded samples of the two big, repetitive
        # classes (single-file open-before-dump x pre-existing directory, plain failures)
        rare = [b for b in behaviours if b["out"] == "ok" or b["dev"] not in ("none", "single-open-before-dump")]
        single = [b for b in behaviours if b["out"] != "ok" and b["dev"] == "single-open-before-dump"]
        plain = [b for b in behaviours if b["out"] != "ok" and b["dev"] == "none" and not _is_round4(b["sc"])]
        plain4 = [b for b in behaviours if b["out"] != "ok" and b["dev"] == "none" and _is_round4(b["sc"])]      # plain failures of the round-4 territory
        keep = rare + rnd.sample(single, min(len(single), 8000)) + rnd.sample(plain, min(len(plain), 14000)) + common.rng(PID + "/plain4").sample(plain4, min(len(plain4), 6000))
        keep.sort(key=lambda b: json.dumps(b["sc"], sort_keys=True))
        replayed = keep
    else:
        replayed = behaviours
    rep.extra["replayed_model_behaviours"] = len(replayed)
    # ---- round 4: histories (SaveHist.tla) -- save, edit, save again into the same directory
    mh = mh_future.result()
    side.shutdown()
    rep.add_tlc(f"MC_SaveHist_{tier}{SFX}", mh)
    if mh.errors or mh.rc != 0:
        if mh.violated:
            rep.violation("model-history:" + ",".join(mh.violated), f"TLC: {mh.violated} violated by a two-call history of the bounded model", {"tlc_errors": mh.errors, "counterexample": mh.cex[:4000]})
        else:
            machinery_failure(PID, "TLC failed on MC_SaveHist:\n" + mh.stdout[-3000:])
    histories = sorted((p for p in mh.printed if isinstance(p, dict) and "hist" in p), key=lambda b: json.dumps(b["hist"], sort_keys=True))
    if not mh.violated and not (0 < len(histories) < mh.distinct):      # distinct = root + group states + one state per history
        machinery_failure(PID, f"MC_SaveHist emitted {len(histories)} histories (distinct={mh.distinct})")
    rep.extra["model_histories"] = len(histories)
    # all of them (thorough, up to a cap) or a seeded sample that prefers the histories in which a call succeeds
    quota = {"ok->ok": 45, "raise->ok": 35, "ok->raise": 30, "raise->raise": 10} if tier == "quick" else {"ok->ok": 2500, "raise->ok": 1500, "ok->raise": 1500, "raise->raise": 700}
    rh = common.rng(PID + "/hist")
    hist_replayed = []
    for cls, n in quota.items():
        grp = [b for b in histories if f"{b['out1']}->{b['out2']}" == cls]
        hist_replayed += grp if len(grp) <= n else rh.sample(grp, n)
    hist_replayed.sort(key=lambda b: json.dumps(b["hist"], sort_keys=True))
    rep.extra["replayed_model_histories"] = len(hist_replayed)
    n_random = 1500 if tier == "quick" else 12000
    base = str(common.scratch("c18"))
    tasks = [(i, b["sc"], base, seed, "replay") for i, b in enumerate(replayed)]
    rnd4 = common.rng(PID + "/round4")
    tasks += [(len(replayed) + j, random_scenario(rnd, rnd4, 0.05 if tier == "quick" else 0.25), base, seed, "random") for j in range(n_random)]
    n_single = len(tasks)
    tasks += [(n_single + j, {**b["hist"]["first"], "then": b["hist"]["second"]}, base, seed, "hist1") for j, b in enumerate(hist_replayed)]
    run_case((10**9, {"multifile": True, "overwrite": True, "subs": [["jn", "f2", "orig"], ["js", "f3", "cfg"], ["s1", "f1", "cfg"]], "invalid": "none", "unser": "none",
                      "fault": ["none", 0], "pre": [["main", "absent"], ["f1", "absent"], ["f2", "absent"], ["f3", "absent"]]}, base, seed, "warmup"))  # imports everything before the fork
    run_case((10**9 + 1, {"multifile": False, "overwrite": True, "subs": [], "invalid": "none", "unser": "none", "scheme": "fsspec",
                          "fault": ["none", 0], "pre": [["main", "absent"]]}, base, seed, "warmup"))               # ... fsspec's local file system included
    pool = mp.get_context("fork").Pool(NPROC)
    pending = pool.map_async(run_case, tasks, chunksize=32)
    try:
        obs_rej = _rest(rep, tier, workers, heap, pool, pending, base, hist_replayed, n_single)
    finally:
        pool.terminate()
        common.rm(base)
    return _classify(rep, tier, mc, behaviours, replayed, obs_rej, n_model, n_random)


def _rest(rep, tier, workers, heap, pool, pending, base, hist_replayed, n_single):
    # the known counterexamples must still be counterexamples of the model, the repairs must still repair
    cex = tlc_checked(rep, "MC_Save", "MC_Save_cex_aon" + SFX, workers=1, heap=heap, timeout=600)
    shape = _cex_shape(cex)
    rep.extra["model_counterexample_AllOrNothing"] = shape
    want = [["check_main", "s_open", "s_validate"]] if VARIANT == "code" else [["m_sub_replace", "m_sub", "m_serialize"], ["m_sub", "m_sub_resolve", "m_sub_check", "m_sub_dump"][-3:]]
    if cex.violated != ["InvAllOrNothing"] or shape.get("actions", [])[-3:] not in want:
        machinery_failure(PID, f"MC_Save_cex_aon{SFX}: expected the counterexample ending in {want} (code: CheckOverwrite -> OpenMain(truncate) -> Validate(fails)), got {cex.violated} {shape}")
    cex2 = tlc_checked(rep, "MC_Save", "MC_Save_cex_rep" + SFX, workers=1, heap=heap, timeout=600)
    if cex2.violated != ["InvSavedReparses"]:
        machinery_failure(PID, f"MC_Save_cex_rep: expected SavedReparses to be violated by a name collision, got {cex2.violated} {cex2.errors[:2]}")
    for cfgname in (("MC_Save_dumpfirst", "MC_Save_twophase") if tier == "thorough" else ()):  # what the proposed repairs guarantee
        fx = tlc_checked(rep, "MC_Save", cfgname, workers=workers, heap=heap, timeout=900)
        if fx.errors or fx.rc != 0:
            machinery_failure(PID, f"{cfgname}: the repaired variant does not satisfy its invariants: {fx.errors[:3]}")
        rep.extra.setdefault("repairs_model_checked", {})[cfgname] = ("single-file AllOrNothing holds; the main file is never emptied by a bad config"
                                                                       if cfgname.endswith("dumpfirst") else "AllOrNothing holds in both modes")
    if tier == "thorough":  # non-vacuity: how often TLC took each action of the machine (-coverage, on the quick instance)
        cov = tlc_checked(rep, "MC_Save", "MC_Save_quick" + SFX, workers=workers, heap=heap, timeout=900, coverage=True)
        rep.extra["tlc_coverage"] = {k: v for k, v in cov.coverage.items() if k.startswith("A_") or k == "Init"}
    rep.extra["alg_variant"] = VARIANT

    import time
    t0 = time.time()
    observations = pending.get(timeout=3000)
    rep.extra.setdefault("wall_s_per_step", {})["waiting_for_real_code_after_model_runs"] = round(time.time() - t0, 1)
    pool.close()
    bad = [o for o in observations if "setup_error" in o]
    if bad:
        machinery_failure(PID, f"{len(bad)} scenarios could not be set up, e.g. {bad[0]['sc']}: {bad[0]['setup_error']}")
    # ---- histories: the second call of each is an observation of its own (validated by Trace_Save like every other call);
    # the pair is validated by Trace_SaveHist
    pairs = []
    for j, b in enumerate(hist_replayed):
        o1 = observations[n_single + j]
        if "then_skipped" in o1:
            rep.add_drift("history not continued: the first save() changed the caller's configuration object (" + o1["then_skipped"] + ")", {"scenario": o1["sc"]})
            continue
        o2 = o1.pop("then")
        o2["idx"] = len(observations)
        observations.append(o2)
        pairs.append({"first": o1["sc"], "second": {**o2["sc"], "pre": o2["model_pre"]}, "fs1": o1["fs"], "out1": o1["out"], "pre2": o2["pre0"],
                      "out2": o2["out"], "fs2": o2["fs"], "refs2": o2["refs"], "reparses2": o2["reparses"]})
    hist_rejects = {}
    if pairs:
        f = os.path.join(base, "hist.json")
        with open(f, "w") as fh:
            json.dump({"hists": pairs}, fh)
        from concurrent.futures import ThreadPoolExecutor

        side = ThreadPoolExecutor(max_workers=1)       # validated beside the single-call observations
        th_future = side.submit(tlc.run, "Trace_SaveHist", "Trace_SaveHist" + SFX, workers=min(workers, 4), heap=heap, timeout=900, env={"TRACE_FILE": f})
    rep.extra["histories_validated"] = len(pairs)
    # ---- TLC validates every observation
    rejects = {}
    chunk = 40000
    for c in range(0, len(observations), chunk):
        part = observations[c:c + chunk]
        f = os.path.join(base, f"trace{c}.json")
        with open(f, "w") as fh:
            json.dump({"obs": [{k: o[k] for k in ("sc", "pre0", "events", "out", "fired", "fs", "extra", "reparses", "refs")} for o in part]}, fh)
        tr = tlc_checked(rep, "Trace_Save", "Trace_Save" + SFX, workers=workers, heap=heap, timeout=1500, env={"TRACE_FILE": f})
        if tr.errors or tr.distinct != len(part):
            machinery_failure(PID, f"trace validation failed (distinct={tr.distinct}, expected {len(part)}):\n" + tr.stdout[-3000:])
        for p in tr.printed:
            if isinstance(p, list) and len(p) == 4 and p[0] == "R":
                rejects.setdefault(c + p[2] - 1, []).append(p[3])
        os.unlink(f)
    if pairs:
        th = th_future.result()
        side.shutdown()
        rep.add_tlc("Trace_SaveHist" + SFX, th)
        if th.errors or th.distinct != len(pairs):
            machinery_failure(PID, f"history validation failed (distinct={th.distinct}, expected {len(pairs)}):\n" + th.stdout[-3000:])
        for p in th.printed:
            if isinstance(p, list) and len(p) == 4 and p[0] == "R" and p[1] == "hist":
                hist_rejects.setdefault(p[2] - 1, []).append(p[3])
    rep.extra["_hist"] = (pairs, hist_rejects)
    return observations, rejects


def _classify(rep, tier, mc, behaviours, replayed, obs_rej, n_model, n_random):
    observations, rejects = obs_rej
    # ---- cross-check of the two directions: what MC emitted for a scenario vs. what Trace_Save says about its replay
    n_agree = 0
    for i, b in enumerate(replayed):
        o = observations[i]
        agree = o["fs"] == _order(b["fs"], o["fs"]) and o["out"] == b["out"]
        n_agree += agree
        if agree != ("alg-final" not in rejects.get(i, [])):
            machinery_failure(PID, f"MC_Save and Trace_Save disagree about scenario {b['sc']}: emitted {b['out']} {b['fs']}, observed {o['out']} {o['fs']}, clauses {rejects.get(i)}")
    rep.extra["replay_agrees_with_emitted_final_state"] = n_agree
    rep.extra["save_left_cwd_changed"] = sum(1 for o in observations if not o["cwd_same"])
    rep.traces = len(observations)
    rep.evaluations = len(observations)
    r4 = {}
    for o in observations:
        sc = o["sc"]
        if sc["invalid"] != "none" or sc["unser"] != "none" or sc["fault"][0] != "none" or any(c != "absent" for _, c in sc["pre"]):
            rep.note_nontrivial(json.dumps(sc, sort_keys=True))
        for tag, yes in (("skip_validation", sc["skipval"]), ("fsspec_target_local", sc["scheme"] == "fsspec"), ("fsspec_target_memory", sc["scheme"] == "memory"), ("file_url_target", sc["scheme"] == "fileurl"), ("edited_after_loading", sc["edited"] != "none"),
                         ("jsonnet_orig_subfile", any(kind == "orig" for _, _, kind in sc["subs"])), ("jsonschema_subfile", any(k == "js" for k, _, _ in sc["subs"]))):
            if yes:
                r4[tag] = r4.get(tag, 0) + 1
    rep.extra["round4_cases"] = r4
    rep.rule = ("cases = scenarios (flags, sub-file layout, pre-existing directory, invalid/unserialisable component, environment fault) made real and "
                "saved once; non-trivial & distinct = distinct scenarios with at least one fault source or one pre-existing file (everything except "
                "'valid config into an empty directory')")
    rep.exhaustive = tier == "quick" or len(replayed) == n_model      # (the single-call universe; the histories are model-checked completely, replayed as a seeded sample)
    rep.explanation = (f"MC_Save enumerated its bounded scenario universe completely ({n_model} scenarios, {mc.distinct} states, every step of save() on each); "
                       f"{len(replayed)} of them were replayed on the real code ({'all' if len(replayed) == n_model else 'all successes, all multi-file / collision / in-place deviations, seeded samples of the single-file deviation and of the plain failures'}), "
                       f"plus {n_random} seeded random scenarios beyond the bounds; every observation was validated by TLC against Trace_Save. "
                       f"Round 4: {rep.extra.get('model_histories')} two-call histories model-checked (MC_SaveHist), {rep.extra.get('replayed_model_histories')} of them replayed "
                       f"(2 observations each, plus the pair validated by Trace_SaveHist). "
                       "Exhaustive refers to the bounded universe, not to all configurations.")
    outcomes = {}
    for o in observations:
        key = f"{o['out']}:{o['exc']}"
        outcomes[key] = outcomes.get(key, 0) + 1
    rep.extra["observed_outcomes"] = outcomes
    picks = [o for o in observations if rejects.get(o["idx"])][:2] + [o for o in observations if o["out"] == "ok" and o["sc"]["subs"]][:2] + observations[:1]
    for o in picks:
        rep.sample({"scenario": o["sc"], "python": o.get("python"), "observed": {"outcome": o["out"], "exception": o["exc"], "events": [[e, f] for e, f, _ in o["events"]],
                                                                             "directory_after": o["fs"], "reparses": o["reparses"]},
                    "tlc_clauses_failed": rejects.get(o["idx"], [])})

    # ---- histories: classification of Trace_SaveHist's rejections
    pairs, hist_rejects = rep.extra.pop("_hist", ([], {}))
    outcomes2 = {}
    for pr in pairs:
        outcomes2[f"{pr['out1']}->{pr['out2']}"] = outcomes2.get(f"{pr['out1']}->{pr['out2']}", 0) + 1
    rep.extra["history_outcomes"] = outcomes2
    for j in sorted(hist_rejects):
        pr, clauses = pairs[j], hist_rejects[j]
        case = {"history": "save, edit every value (new generation), drop the __path__ metas not listed in second.subs, save again into the same directory",
                **pr, "failed_clauses": clauses}
        if "malformed" in clauses:
            machinery_failure(PID, f"history: the directory before the second call is not what the first call left: {case}")
        href = [c for c in clauses if c.startswith("href-")]
        if not href:
            rep.add_drift("history: real save() satisfies the laws of a history but not the Alg prediction (" + ",".join(clauses) + ")", case)
            continue
        m1 = "multi" if pr["first"]["multifile"] else "single"
        m2 = "multi" if pr["second"]["multifile"] else "single"
        changed = ",".join(f"{f}:{a}->{b}" for (f, a), (_, b) in zip(pr["pre2"], pr["fs2"]) if a != b) or "nothing"
        for c in href:
            if c == "href-stale-as:multi-name-collision":
                kind = "sub-main" if any(n == "main" for _, n, _ in pr["second"]["subs"]) else "sub-sub"
                rep.violation(f"multi-name-collision:{kind}", "second save of a history succeeded but two components were written to one file name", case)
            else:
                rep.violation(f"history:{c[5:]}:{m1}-then-{m2}:{changed}"[:150],
                              {"href-neverlost": "a file that existed before the first of two saves was modified although neither asked to overwrite",
                               "href-firstkept": "the second save modified what the first save had written although overwrite=False",
                               "href-stale": "after save, edit, save the saved path does not re-parse to the edited configuration, or a file the second configuration does not refer to was changed"}.get(c, c), case)

    # ---- classification of TLC's rejections
    for i in sorted(rejects):
        o, clauses = observations[i], rejects[i]
        sc = o["sc"]
        case = {"scenario": sc, "python": o.get("python"), "outcome": o["out"], "exception": o["exc"], "raised_in": o.get("exc_tb", ""),
                "events": [[e, f] for e, f, _ in o["events"]], "directory_before": o["pre0"], "directory_after": o["fs"], "extra": o["extra"],
                "reparses": o["reparses"], "reparse_diff": o.get("reparse_diff"), "saved_refs": o.get("refs"), "input_layout": o.get("layout"),
                "failed_clauses": clauses, "source": o["src"]}
        if "malformed" in clauses:
            machinery_failure(PID, f"the harness did not set up the scenario's directory: {case}")
        mode = "multi" if sc["multifile"] else "single"
        changed = ",".join(f"{f}:{a}->{b}" for (f, a), (_, b) in zip(o["pre0"], o["fs"]) if a != b) or "nothing"
        ref = [c for c in clauses if c.startswith("ref-")]
        if not ref:
            rep.add_drift("real save() satisfies the property but not the Alg transcription (" + ",".join(clauses) + ")", case)
            continue
        for c in ref:
            if c.startswith("ref-aon-as:"):
                _, dev, cause = c.split(":")
                rep.violation(f"{dev}:{cause}", f"save() failed ({cause} value) and left the directory changed: {changed}", case)
            elif c == "ref-aon-other":
                rep.violation(f"aon-other:{mode}:{sc['invalid']}/{sc['unser']}:{changed}"[:150],
                              f"save() failed because of an invalid/unserialisable value and changed the directory in a way the model does not predict: {changed}", case)
            elif c.startswith("ref-nso-as:fsspec-no-overwrite-check:"):
                rep.violation("fsspec-no-overwrite-check:" + c.rsplit(":", 1)[1],
                              f"save() to an fsspec target (local://...) with overwrite=False modified an existing file: {changed}", case)
            elif c == "ref-reparse-as:multi-orig-text-stale":
                rep.violation("multi-orig-text-stale:jsonnet-edited", "multi-file save wrote an ActionJsonnet component that was edited after loading as the text it was loaded from; "
                              "save() succeeded, the saved path parses to the value before the edit", case)
            elif c == "ref-reparse-as:inplace-content-emptied":
                rep.violation("inplace-content-emptied", "multi-file save back into the directory the config was loaded from emptied the file behind a save_path_content value", case)
            elif c.startswith("ref-reparse-as:"):
                kind = "sub-main" if any(n == "main" for _, n, _ in sc["subs"]) else "sub-sub"
                rep.violation(f"multi-name-collision:{kind}", "multi-file save succeeded but two components were written to one file name; the saved path does not re-parse to the configuration", case)
            elif c == "ref-reparse-refs":
                bad = [r for r in o["refs"] if r[1].startswith("?")] or o["refs"]
                rep.violation(f"saved-reference-not-bare-name:{mode}:{bad[0][0]}:{o.get('layout', {}).get(bad[0][0], '?')}",
                              f"save() succeeded but the saved document refers to component {bad[0][0]} as {bad[0][1][1:]!r} instead of the bare name of the file written next to the main file", case)
            elif c == "ref-reparse-other":
                rep.violation(f"reparse-other:{mode}:{len(sc['subs'])}subs:{o.get('reparse_diff', '')[:60]}", "save() succeeded but the saved path does not re-parse to the configuration", case)
            elif c == "ref-nso":
                rep.violation(f"overwritten-without-request:{mode}:{changed}"[:150], "an existing file was modified although overwrite=False (or a directory was replaced)", case)
            elif c == "ref-frame":
                rep.violation(f"frame:{mode}:{o['extra'][0][0] if o['extra'] else '?'}"[:150], "a file that save() was not asked to write was modified", case)
            else:
                rep.violation(f"unclassified:{c}", f"Trace_Save clause {c} failed", case)
    return rep.finish()


def _is_round4(sc) -> bool:
    return sc.get("scheme", "path") != "path" or bool(sc.get("skipval")) or sc.get("edited", "none") != "none" or any(kind == "orig" or k == "js" for k, _, kind in sc["subs"])


def _order(pairs, like):
    d = {f: c for f, c in pairs}
    return [[f, d.get(f)] for f, _ in like]


def _cex_shape(res) -> dict:
    import re

    pcs = re.findall(r'st = \[ pc \|-> "(\w+)"', res.cex) or re.findall(r'pc \|-> "(\w+)"', res.cex)
    m = re.search(r'cause \|-> "(\w+)"', res.cex[res.cex.rfind("State "):]) if res.cex else None
    return {"actions": pcs[:-1], "final_pc": pcs[-1] if pcs else None, "cause": m.group(1) if m else None, "length": len(pcs)}


def _merge_own_findings(rep) -> None:
    """known findings come from /verif/known_findings.json only (Report loads it)."""
    return None


if __name__ == "__main__":
    args = sys.argv[1:]
    if args and args[0] == "--replay":
        print(open(args[1]).read())
        sys.exit(0)
    sys.exit(main(args))
