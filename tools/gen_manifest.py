#!/usr/bin/env python3
"""Regenerates /verif/MANIFEST.json from tools/manifest.d/Cxx.json and /verif/known_findings.json from
tools/findings.d/Cxx.json (both generated files are committed; nothing is generated at check time)."""
import json
import pathlib

V = pathlib.Path(__file__).resolve().parents[1]
props = [json.loads(l) for l in (V / "properties.jsonl").read_text().splitlines() if l.strip()]

TLC_NOTE = ("Trusted: TLC 1.8 and the TLA+ CommunityModules (Json/IOUtils), the Python harness's abstraction pair alpha/gamma "
            "(small, total, self-checked at the start of a run), CPython and the third-party libraries jsonargparse builds on. ")
NOT_YET = "check not built yet in this session (construction order in DESIGN.md section 8); will be claimed once its spec and conformance harness exist"
NA = {}  # property id -> reason, for properties that are deliberately not claimed
na_file = V / "tools" / "not_applicable.json"
if na_file.exists():
    NA = json.loads(na_file.read_text())

APPROVED = set((V / "tools" / "approved.txt").read_text().split())  # checks reviewed by the maintainer of /verif

checks, na = [], []
for p in props:
    pid = p["id"]
    f = V / "tools" / "manifest.d" / f"{pid}.json"
    if not f.exists() or pid in NA or pid not in APPROVED:
        na.append({"property_id": pid, "reason": NA.get(pid, NOT_YET)})
        continue
    c = json.loads(f.read_text())
    entry = {
        "property_id": pid,
        "quick_cmd": f"./check {pid} quick",
        "thorough_cmd": f"./check {pid} thorough",
        "evidence_file": f"/verif/evidence/{pid}.json",
        "replay_cmd_template": f"./check {pid} --replay {{path}}",
        "engine": "tlc+conformance",
        "level_claimed": {"category": c.get("level", "model_checking"), "text": c["text"], "design_ref": "DESIGN.md section " + c["design"]},
        "level_note": TLC_NOTE + c["note"],
        "technique": c["technique"],
    }
    checks.append(entry)

hooks_commits = []
hc = V / "tools" / "hook_commits.txt"
if hc.exists():
    hooks_commits = [l.split()[0] for l in hc.read_text().splitlines() if l.strip() and not l.startswith("#")]

manifest = {
    "version": 1,
    "setup_cmd": "tools/setup.sh",
    "hooks": {
        "guard": "JSONARGPARSE_VERIF",
        "enable": "environment variable JSONARGPARSE_VERIF=1 (set by ./check); jsonargparse is imported from /repo's working tree, nothing is built",
        "baseline_off_cmd": "tools/baseline_off.sh",
        "source_commits": hooks_commits,
        "add_only": True,
    },
    "engines": [
        {"name": "tlc+conformance", "path": "harness/lib/tlc.py", "serves_properties": [c["property_id"] for c in checks],
         "kind_free_text": "TLC 1.8 model checking of spec/*.tla (bounded exhaustive / -simulate), spec->code replay of TLC-emitted behaviours on the real jsonargparse, code->spec validation by TLC of executions recorded from the real code (TRACE_FILE + JsonDeserialize)"},
    ],
    "checks": checks,
    "notes": "All checks: ./check <id> quick|thorough (cwd /verif). Known findings: known_findings.json. Seeded changes used to test the machinery: seeded/. See DESIGN.md.",
    "not_applicable": na,
}
(V / "MANIFEST.json").write_text(json.dumps(manifest, indent=1) + "\n")

findings = []
for f in sorted((V / "tools" / "findings.d").glob("*.json")):
    findings += json.loads(f.read_text())  # findings of checks still under review are listed too (they suppress nothing else)
kf = {"_comment": "Genuine defects of the pinned tree that are recorded rather than repaired. status=known: the check prints KNOWN-FINDING and exits 0 "
                  "when it re-observes exactly this case; status=fixed ('fixed: property=<id> <commit> <what failed>'): repaired by the named fix: commit, "
                  "suppresses nothing. Keys are matched exactly, or as a prefix when they end with '*'. Generated from tools/findings.d by tools/gen_manifest.py "
                  "and committed; never written at run time.",
      "findings": findings}
(V / "known_findings.json").write_text(json.dumps(kf, indent=1) + "\n")
print("claimed:", [c["property_id"] for c in checks], "not claimed:", [x["property_id"] for x in na], "findings:", len(findings))
