#!/usr/bin/env python3
"""Regenerates /verif/MANIFEST.json from the table below (one entry per claimed property)."""
import json
import pathlib

V = pathlib.Path(__file__).resolve().parents[1]
props = [json.loads(l) for l in (V / "properties.jsonl").read_text().splitlines() if l.strip()]

TLC_NOTE = ("Trusted: TLC 1.8 and the TLA+ CommunityModules (Json/IOUtils), the Python harness's abstraction pair alpha/gamma "
            "(small, total, self-checked at the start of a run), CPython. ")

CHECKS = {
    "C11": dict(
        technique="TLA+ spec (Namespace.tla: Ref nested dict vs Alg transcription of _namespace.py) model-checked by TLC; spec->code replay of every TLC state x operation; code->spec TLC validation of recorded random histories",
        text=("TLC explores every history of set/del/pop/update operations up to the bound over a universe with clash names, dict, list, tuple and "
              "namespace values and checks that the implementation-shaped Alg layer equals the reference nested dictionary on every operation in "
              "every reachable state (outside the recorded dict deviation). Every emitted state is rebuilt as a real Namespace, operations are executed "
              "on it, and TLC validates each recorded (pre, call, result, post) step and every observer's answers against the spec; seeded random "
              "histories of up to 40 steps with more names and deeper keys are validated the same way. Model checking is the right level because the "
              "property quantifies over histories of a small sequential object whose abstract state is finite and fully observable."),
        design="4 (C11), 3.4",
        note=TLC_NOTE + "Insertion order and exception classes are outside the verdict; leaf values come from a 15-value vocabulary."),
}

NOT_YET = "check not built yet in this session (construction order in DESIGN.md section 8); will be claimed once its spec and conformance harness exist"

checks, na = [], []
for p in props:
    pid = p["id"]
    c = CHECKS.get(pid)
    if not c:
        na.append({"property_id": pid, "reason": NOT_YET})
        continue
    checks.append({
        "property_id": pid,
        "quick_cmd": f"./check {pid} quick",
        "thorough_cmd": f"./check {pid} thorough",
        "evidence_file": f"/verif/evidence/{pid}.json",
        "replay_cmd_template": f"./check {pid} --replay {{path}}",
        "engine": "tlc+conformance",
        "level_claimed": {"category": "model_checking", "text": c["text"], "design_ref": "DESIGN.md section " + c["design"]},
        "level_note": c["note"],
        "technique": c["technique"],
    })

hooks_commits = []
hc = V / "tools" / "hook_commits.txt"
if hc.exists():
    hooks_commits = [l.split()[0] for l in hc.read_text().splitlines() if l.strip() and not l.startswith("#")]

manifest = {
    "version": 1,
    "setup_cmd": "tools/setup.sh",
    "hooks": {
        "guard": "JSONARGPARSE_VERIF",
        "enable": "environment variable JSONARGPARSE_VERIF=1 (set by ./check); jsonargparse is imported from /repo's working tree, nothing is built",
        "baseline_off_cmd": "tools/baseline_off.sh",
        "source_commits": hooks_commits,
        "add_only": True,
    },
    "engines": [
        {"name": "tlc+conformance", "path": "harness/lib/tlc.py", "serves_properties": [c["property_id"] for c in checks],
         "kind_free_text": "TLC 1.8 model checking of spec/*.tla (bounded exhaustive / -simulate), spec->code replay of TLC-emitted behaviours on the real jsonargparse, code->spec validation by TLC of executions recorded from the real code (TRACE_FILE + JsonDeserialize)"},
    ],
    "checks": checks,
    "notes": "All checks: ./check <id> quick|thorough (cwd /verif). Known findings: known_findings.json. Seeded changes used to test the machinery: seeded/. See DESIGN.md.",
    "not_applicable": na,
}
(V / "MANIFEST.json").write_text(json.dumps(manifest, indent=1) + "\n")
print("claimed:", [c["property_id"] for c in checks], "not claimed:", len(na))
