#!/bin/bash
# The repository's pinned suite with the hook guard OFF (compare with /root/.vp/BASELINE.json stable_pass).
# usage: tools/baseline_off.sh [repo-dir]   -> prints "BASELINE OK <n>" / "BASELINE MISSING <tests>" ; exit 0/1
REPO="${1:-/repo}"
unset JSONARGPARSE_VERIF
out=$(mktemp /tmp/verif-junit-XXXXXX.xml)
(cd "$REPO" && PYTHONDONTWRITEBYTECODE=1 /venv/bin/python -m pytest -ra -q -p no:cacheprovider --timeout=900 --continue-on-collection-errors --junitxml="$out" >/dev/null 2>&1)
/venv/bin/python - "$out" <<'PY'
import json, sys, xml.etree.ElementTree as ET
b = json.load(open('/root/.vp/BASELINE.json'))
sp = set(b['stable_pass'])
passed = set()
for tc in ET.parse(sys.argv[1]).iter('testcase'):
    name = f"{tc.get('classname')}::{tc.get('name')}"
    if not any(c.tag in ('failure', 'error', 'skipped') for c in tc):
        passed.add(name)
missing = sorted(sp - passed)
if missing:
    print("BASELINE MISSING", len(missing), missing[:20]); sys.exit(1)
print("BASELINE OK", len(sp), "stable tests pass;", len(passed), "passed in total")
PY
rc=$?
rm -f "$out"
exit $rc
