#!/usr/bin/env python3
"""Writes the generated tables of DESIGN.md (between the markers <!-- BEGIN:xxx --> / <!-- END:xxx -->):
seeded changes (from seeded/*/meta.json), findings (from tools/findings.d), evidence numbers (from evidence/*.json)."""
import json
import pathlib
import re

V = pathlib.Path(__file__).resolve().parents[1]


def seeded():
    rows = ["| seeded change | property | what it needs to manifest | suite | demo (clean / changed) | check | result |", "|---|---|---|---|---|---|---|"]
    for d in sorted((V / "seeded").glob("*/meta.json")):
        m = json.loads(d.read_text())
        c = m.get("confirmed", {})
        res = m.get("result", {})
        chk = ", ".join(f"{k}: exit {v['exit']}, {v['violation_lines']} VIOLATION lines" for k, v in res.items() if 'exit' in v)
        need = (m.get("needs_to_manifest") or "").replace("|", "/").replace("\n", " ")
        need = need[:230] + ("…" if len(need) > 230 else "")
        rows.append(f"| `{d.parent.name}` {(m.get('title') or '')[:90]} | {m['property']} | {need} | {'silent' if c.get('suite_ok') else ('not re-run' if c.get('suite_ok') is None else 'NOTICED')} | "
                    f"{c.get('demo_clean_exit')} / {c.get('demo_mutated_exit')} | {chk} | **{'neutralised by a repair (see note)' if m.get('status') == 'neutralised' else 'caught' if m.get('caught') else 'MISSED'}** |")
    return "\n".join(rows)


def findings():
    rows = ["| property | key | status | what |", "|---|---|---|---|"]
    for f in sorted((V / "tools" / "findings.d").glob("*.json")):
        for e in json.loads(f.read_text()):
            what = e["what"].replace("|", "/").replace("\n", " ")
            rows.append(f"| {e['property']} | `{e['key']}` | {e['status']}{(' ' + e.get('commit', '')) if e['status'] == 'fixed' else ''} | {what[:260]}{'…' if len(what) > 260 else ''} |")
    return "\n".join(rows)


def evidence():
    rows = ["| property | tier | TLC states | transitions | cases compared with the implementation | distinct non-trivial | known findings seen | wall s |", "|---|---|---|---|---|---|---|---|"]
    for f in sorted((V / "evidence").glob("C*.json")):
        e = json.loads(f.read_text())
        c = e["coverage"]
        rows.append(f"| {e['property_id']} | {e['tier']} | {c.get('states')} | {c.get('transitions')} | {c.get('traces_validated_against_impl')} | {c.get('distinct_nontrivial')} | "
                    f"{len(c.get('known_findings_seen', []))} | {e['wall_s']} |")
    return "\n".join(rows)


def main():
    p = V / "DESIGN.md"
    s = p.read_text()
    for name, fn in (("seeded", seeded), ("findings", findings), ("evidence", evidence)):
        s = re.sub(rf"(<!-- BEGIN:{name} -->).*?(<!-- END:{name} -->)", lambda m: m.group(1) + "\n" + fn() + "\n" + m.group(2), s, flags=re.S)
    p.write_text(s)
    print("tables regenerated")


if __name__ == "__main__":
    main()
