#!/usr/bin/env python3
"""Confirms a seeded change and runs a check against it.

usage: tools/seed_eval.py <dir with patch.diff demo.py meta.json> <Cxx> [--keep-as <name>] [--no-suite] [--tier quick]

Works in a scratch worktree of /repo (never in /repo itself while other runs are going on):
  1. the patch applies to the pinned tree;
  2. the repository's suite still passes with it (tools/baseline_off.sh, guard off);
  3. the demonstration passes without the change and fails with it;
  4. ./check <Cxx> <tier> against the changed tree: caught (exit 1 + VIOLATION) or missed.
Writes/updates /verif/seeded/<name>/{patch.diff, demo.py, meta.json}.
"""
import json
import os
import pathlib
import shutil
import subprocess
import sys

V = pathlib.Path(__file__).resolve().parents[1]
WT = pathlib.Path(os.environ.get("SEED_WT", "/tmp/wt_seed"))


def sh(cmd, **kw):
    return subprocess.run(cmd, shell=True, text=True, stdout=subprocess.PIPE, stderr=subprocess.STDOUT, **kw)


def main():
    args = sys.argv[1:]
    src, pid = pathlib.Path(args[0]), args[1]
    name = args[args.index("--keep-as") + 1] if "--keep-as" in args else f"{pid}-{src.name}"
    tier = args[args.index("--tier") + 1] if "--tier" in args else "quick"
    checks = args[args.index("--checks") + 1].split(",") if "--checks" in args else [pid]
    if not WT.exists():
        r = sh(f"git -C /repo worktree add --detach {WT} HEAD")
        assert r.returncode == 0, r.stdout
    sh(f"git -C {WT} checkout -q -- . && git -C {WT} clean -fdq")
    head = sh("git -C /repo rev-parse HEAD").stdout.strip()
    sh(f"git -C {WT} checkout -q --detach {head}")
    meta = json.loads((src / "meta.json").read_text()) if (src / "meta.json").exists() else {}
    res = {"property": pid, "repo_head": head}
    env = dict(os.environ, PYTHONPATH=str(WT), PYTHONDONTWRITEBYTECODE="1")
    env.pop("JSONARGPARSE_VERIF", None)
    d0 = sh(f"cd {WT} && /venv/bin/python {src / 'demo.py'}", env=env)
    res["demo_clean_exit"] = d0.returncode
    ap = sh(f"git -C {WT} apply --3way {src / 'patch.diff'} 2>&1 || git -C {WT} apply {src / 'patch.diff'}")
    res["patch_applies"] = ap.returncode == 0
    if ap.returncode != 0:
        print("PATCH DOES NOT APPLY", ap.stdout)
        sys.exit(3)
    sh(f"git -C {WT} reset -q")
    d1 = sh(f"cd {WT} && /venv/bin/python {src / 'demo.py'}", env=env)
    res["demo_mutated_exit"] = d1.returncode
    res["demo_mutated_output"] = d1.stdout[-600:]
    if "--no-suite" not in args:
        b = sh(f"{V}/tools/baseline_off.sh {WT}")
        res["suite"] = b.stdout.strip()[-300:]
        res["suite_ok"] = b.returncode == 0
    if "--no-suite" in args and isinstance(meta.get("confirmed"), dict):  # keep the verdict of the run that did execute the suite
        for k in ("suite", "suite_ok"):
            if meta["confirmed"].get(k) is not None:
                res[k] = meta["confirmed"][k]
    res["checks"] = {}
    for c in checks:
        r = sh(f"cd {V} && VERIF_REPO={WT} ./check {c} {tier}", env=dict(os.environ, VERIF_REPO=str(WT)))
        viol = [l for l in r.stdout.splitlines() if l.startswith("VIOLATION")]
        res["checks"][c] = {"exit": r.returncode, "violation_lines": len(viol), "first": viol[:3],
                            "what": [l.strip() for l in r.stdout.splitlines() if l.strip().startswith("what:")][:3],
                            "tail": r.stdout.strip().splitlines()[-1:] }
    sh(f"git -C {WT} checkout -q -- . && git -C {WT} clean -fdq")
    caught = any(v["exit"] == 1 and v["violation_lines"] > 0 for v in res["checks"].values())
    res["caught"] = caught
    out = V / "seeded" / name
    out.mkdir(parents=True, exist_ok=True)
    if src.resolve() != out.resolve():
        shutil.copy(src / "patch.diff", out / "patch.diff")
        shutil.copy(src / "demo.py", out / "demo.py")
    default_source = ("revert of a fix: commit of /repo (the repaired defect must be reported again if it returns)" if "self-revert" in name
                      else "independent sub-agent given only the property text and a scratch worktree")
    meta_out = {"property": pid, "source": meta.get("source") or default_source,
                "title": meta.get("title"), "files": meta.get("files"), "what_it_breaks": meta.get("what_it_breaks"),
                "needs_to_manifest": meta.get("needs_to_manifest"), "why_tests_miss_it": meta.get("why_tests_miss_it"),
                "confirmed": {k: res.get(k) for k in ("patch_applies", "suite_ok", "suite", "demo_clean_exit", "demo_mutated_exit")},
                "ran": f"tools/seed_eval.py (scratch worktree, VERIF_REPO) ./check {','.join(checks)} {tier}",
                "result": res["checks"], "caught": caught}
    if not meta_out["title"] and (src / "README.md").exists():
        meta_out["title"] = (src / "README.md").read_text().strip().splitlines()[0][:200]
    if res.get("demo_mutated_exit") == 0 and res.get("demo_clean_exit") == 0 and "self-revert" not in name:
        # the demonstration passes WITH the change on the current tree: the change no longer breaks the property here
        meta_out["status"], meta_out["caught"] = "neutralised", None
        meta_out["note"] = meta.get("note") or "the demonstration passes with the change applied on the current tree"
    (out / "meta.json").write_text(json.dumps(meta_out, indent=1) + "\n")
    print(json.dumps({k: res[k] for k in res if k != "demo_mutated_output"}, indent=1))
    print("CAUGHT" if caught else "MISSED", name)


if __name__ == "__main__":
    main()
