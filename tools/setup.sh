#!/bin/bash
# MANIFEST.setup_cmd: offline, from files on disk only. Byte-compiles nothing into /repo; parses every TLA+ module with SANY.
set -e
cd "$(dirname "$0")/.."
mkdir -p evidence replays
fail=0
for f in spec/*.tla; do
  out=$(cd spec && java -cp /opt/veriftools/tla/tla2tools.jar:/opt/veriftools/tla/CommunityModules-deps.jar tla2sany.SANY "$(basename "$f")" 2>&1) || true
  if echo "$out" | grep -q -E "\*\*\* Errors|Fatal errors|Could not|Lexical error|Parse Error"; then echo "SANY FAILED: $f"; echo "$out" | tail -20; fail=1; fi
done
/venv/bin/python -c "import sys; sys.path.insert(0,'/repo'); import jsonargparse, yaml, hypothesis, jsonschema; print('python ok', jsonargparse.__file__)"
PYTHONDONTWRITEBYTECODE=1 /venv/bin/python - <<'PY'
import ast, pathlib, sys
bad = 0
for p in pathlib.Path("harness").rglob("*.py"):
    try:
        ast.parse(p.read_text())
    except SyntaxError as e:
        print("SYNTAX", p, e); bad = 1
sys.exit(bad)
PY
exit $fail
