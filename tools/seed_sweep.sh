#!/bin/bash
# Re-evaluates every kept seeded change (seeded/<name>/) against the CURRENT checks, N at a time, each in its own
# scratch worktree (SEED_WT).  usage: tools/seed_sweep.sh [N] [name-regex]
#   result lines: CAUGHT|MISSED <name>;  the meta.json of each seed is rewritten in place.
cd "$(dirname "$0")/.." || exit 2
N="${1:-4}"; RE="${2:-.}"
ls seeded | grep -E "$RE" | while read -r name; do
  pid=$(python3 -c "import json,sys; m=json.load(open('seeded/$name/meta.json')); print(m['property']+' '+','.join(m.get('result',{}).keys()))")
  echo "$name $pid"
done | xargs -P "$N" -L 1 bash -c 'name=$0; pid=$1; checks=${2:-$1}; slot=$(( $$ % 1000 )); SEED_WT=/tmp/wt_sweep_$slot python3 tools/seed_eval.py $PWD/seeded/$name $pid --keep-as $name --no-suite --checks $checks 2>&1 | tail -1; git -C /repo worktree remove --force /tmp/wt_sweep_$slot >/dev/null 2>&1'
git -C /repo worktree prune
